#!/bin/sh
# builds the tvc engine from files on disk only (offline)
set -e
cd "$(dirname "$0")"
export GOFLAGS=-mod=mod GOPROXY=off
mkdir -p bin
(cd cmd/tvc && go build -o ../../bin/tvc .)
