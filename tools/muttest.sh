#!/bin/sh
# tools/muttest.sh <property> <file> <python-replace-old> <python-replace-new> : apply a one-off textual mutation to a
# scratch copy of /repo and run the property's quick check against it (self-test of the checks; /repo is not touched)
prop=$1; file=$2; old=$3; new=$4
work=$(mktemp -d /var/tmp/mutrepo.XXXXXX)
rsync -a --exclude .git /repo/ "$work/"
python3 - "$work/$file" "$old" "$new" <<'PY' || { rm -rf "$work"; exit 3; }
import sys
p,old,new=sys.argv[1:4]
s=open(p).read()
if old not in s:
    print("muttest: pattern not found"); sys.exit(3)
open(p,'w').write(s.replace(old,new,1))
PY
rep=$(mktemp -d /var/tmp/mutrep.XXXXXX)
cd /verif && TVC_REPO="$work" TVC_REPLAY_DIR="$rep" TVC_RETRY_S=${TVC_RETRY_S:-20} bin/tvc check -prop "$prop" -no-evidence 2>&1 | grep -E "^VIOLATION|^KNOWN|^UNDECIDED|exit [0-9]$|failed obligation" | cut -c1-220 | head -8
rm -rf "$work" "$rep"
