#!/bin/sh
# tools/harmlesstargeted.sh [Hxx...] : the targeted behaviour-preserving refactorings /verif/harmless/Hxx (each refactors
# functions that carry contracts of several properties; harmless/Hxx/props lists them): apply to a scratch copy of /repo,
# run each listed property's quick check: ok / undecided (exit 2, no VIOLATION) / FALSE-ALARM.
cd /verif
dirs="$*"; [ -z "$dirs" ] && dirs=$(ls harmless | grep '^H')
for d in $dirs; do
  work=$(mktemp -d /var/tmp/hrepo.XXXXXX); rsync -a --exclude .git /repo/ "$work/"
  if ! (cd "$work" && patch -p1 --fuzz=3 -s < /verif/harmless/$d/patch.diff >/dev/null 2>&1); then echo "$d patch-does-not-apply"; rm -rf "$work"; continue; fi
  for p in $(cat harmless/$d/props); do
    rep=$(mktemp -d /var/tmp/hrep.XXXXXX)
    out=$(TVC_REPO="$work" TVC_REPLAY_DIR="$rep" bin/tvc check -prop "$p" -no-evidence 2>&1)
    rc=$(echo "$out" | grep -o "exit [0-9]$" | tail -1)
    if echo "$out" | grep -q "^VIOLATION"; then echo "$d $p FALSE-ALARM"; echo "$out" | grep -E "failed obligation|bounded stand-in" | head -3 | cut -c1-220
    elif [ "$rc" = "exit 0" ]; then echo "$d $p ok"
    else echo "$d $p undecided"; echo "$out" | grep "^UNDECIDED" | head -2 | cut -c1-220; fi
    rm -rf "$rep"
  done
  rm -rf "$work"
done
