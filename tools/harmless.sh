#!/bin/sh
# tools/harmless.sh : behaviour-preserving edits (renamed locals, reordered independent statements, equivalent rewrites)
# applied to scratch copies of /repo; every check must still exit 0 on them. Prints one line per edit.
cd /verif
run() { # prop file old new label
  out=$(TVC_RETRY_S=${TVC_RETRY_S:-60} tools/muttest.sh "$1" "$2" "$3" "$4" 2>&1)
  if echo "$out" | grep -q "exit 0$"; then echo "ok          $1 $5"; else echo "FALSE-ALARM $1 $5"; echo "$out" | head -4; fi
}
run C02 pkg/controller/multi-ip/node/pool.go '						v.IP.PodID = podID
						v.IP.PodUID = info.PodUID
						log.Info("assign ip", "pod", podID, "ip", v.IP.IP, "eni", v.NetworkInterface.ID)
						break' '						v.IP.PodUID = info.PodUID
						v.IP.PodID = podID
						log.Info("assign ip", "pod", podID, "ip", v.IP.IP, "eni", v.NetworkInterface.ID)
						break' "reordered independent stores"
run C04 daemon/daemon.go '	oldRes, err := n.getPodResource(pod)
	if err != nil {
		return nil, err
	}

	if !n.verifyPodNetworkType' '	prevRes, err := n.getPodResource(pod)
	oldRes := prevRes
	if err != nil {
		return nil, err
	}

	if !n.verifyPodNetworkType' "extra alias for a local"
run C09 daemon/daemon.go '		uidInLocal.Delete(podRes.PodInfo.PodUID)
		serviceLog.Info("removed pod", "pod", podID)' '		serviceLog.Info("removed pod", "pod", podID)
		uidInLocal.Delete(podRes.PodInfo.PodUID)' "reordered log and bookkeeping"
run C08 pkg/controller/multi-ip/node/pool.go '	networkInterface.IPv4CIDR = vsw.IPv4CIDR
	networkInterface.IPv6CIDR = vsw.IPv6CIDR' '	networkInterface.IPv6CIDR = vsw.IPv6CIDR
	networkInterface.IPv4CIDR = vsw.IPv4CIDR' "reordered independent field writes"
run C01 pkg/eni/types.go '	if ip.podID != podID {
		return
	}
	ip.podID = ""' '	if ip.podID == podID {
		ip.podID = ""
	}' "equivalent rewrite of IP.Release"
run C06 pkg/eni/local.go '	left6 := min(len(l.ipv6.Idles()), n)

	for i := 0; i < left6; i++ {' '	leftV6 := min(len(l.ipv6.Idles()), n)
	left6 := leftV6

	for i := 0; i < leftV6; i++ {' "renamed local in Dispose"
run C16 pkg/aliyun/client/token.go '		uuids := v.([]string)
		uuids = append(uuids, uuid)

		g.cache.Add(paramHash, uuids)' '		stack := v.([]string)
		stack = append(stack, uuid)

		g.cache.Add(paramHash, stack)' "renamed local in PutBack"
run C18 pkg/controller/webhook/mutating.go '		if len(n.SecurityGroupIDs) > 10 {
			return admission.Denied("security group can not more than 10")
		}
		if len(n.Interface) <= 0 || len(n.Interface) >= 6 {
			return admission.Denied("interface name should >0 and <6 ")
		}' '		if len(n.Interface) <= 0 || len(n.Interface) >= 6 {
			return admission.Denied("interface name should >0 and <6 ")
		}
		if len(n.SecurityGroupIDs) > 10 {
			return admission.Denied("security group can not more than 10")
		}' "reordered independent validations"
