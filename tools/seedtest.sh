#!/bin/sh
# tools/seedtest.sh <seed-dir-name> <property> : apply a seeded change to /repo, run the property's quick check, revert.
# /repo must be clean (commit hooks first).
set -u
seed="/verif/seeded/$1"; prop="$2"
cd /repo || exit 2
if [ -n "$(git status --porcelain)" ]; then echo "seedtest: /repo not clean"; git status --short; exit 2; fi
if ! patch -p1 --fuzz=3 -s < "$seed/patch.diff" >/dev/null 2>&1; then echo "seedtest: patch does not apply"; git checkout -- . ; git clean -fdq; exit 3; fi
cd /verif && TVC_NOEVIDENCE=1 bin/tvc check -prop "$prop" -no-evidence 2>&1 | grep -E "^VIOLATION|^KNOWN|^UNDECIDED|exit [0-9]$|failed obligation" | cut -c1-240 | head -12
rc=$?
cd /repo && git checkout -- . && git clean -fdq
rm -rf /verif/replays
