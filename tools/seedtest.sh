#!/bin/sh
# tools/seedtest.sh <seed-dir-name> <property> : apply a seeded change to a scratch copy of /repo's working tree,
# run the property's quick check against it (TVC_REPO), remove the copy. /repo itself is never touched.
set -u
seed="/verif/seeded/$1"; prop="$2"
work=$(mktemp -d /var/tmp/seedrepo.XXXXXX)
rsync -a --exclude .git /repo/ "$work/"
cd "$work" || exit 2
if ! patch -p1 --fuzz=3 -s < "$seed/patch.diff" >/dev/null 2>&1; then echo "seedtest: patch does not apply"; rm -rf "$work"; exit 3; fi
rep=$(mktemp -d /var/tmp/seedrep.XXXXXX)
cd /verif && TVC_REPO="$work" TVC_REPLAY_DIR="$rep" bin/tvc check -prop "$prop" -no-evidence 2>&1 | grep -E "^VIOLATION|^KNOWN|^UNDECIDED|exit [0-9]$|failed obligation" | cut -c1-240 | head -12
rm -rf "$work" "$rep"
