#!/bin/sh
# tools/harmlessall.sh [dir...] : apply each behaviour-preserving refactoring under /verif/harmless/ to a scratch copy of
# /repo and run its property's quick check: exit 0 = ok, UNDECIDED (exit 2) = contract no longer resolves (not an alarm,
# reported), VIOLATION = FALSE ALARM.
cd /verif
dirs="$*"; [ -z "$dirs" ] && dirs=$(ls harmless)
for d in $dirs; do
  p=${d%%-*}
  work=$(mktemp -d /var/tmp/hrepo.XXXXXX); rsync -a --exclude .git /repo/ "$work/"
  if ! (cd "$work" && patch -p1 --fuzz=3 -s < /verif/harmless/$d/patch.diff >/dev/null 2>&1); then echo "$d $p patch-does-not-apply"; rm -rf "$work"; continue; fi
  rep=$(mktemp -d /var/tmp/hrep.XXXXXX)
  out=$(TVC_REPO="$work" TVC_REPLAY_DIR="$rep" bin/tvc check -prop "$p" -no-evidence 2>&1)
  rc=$(echo "$out" | grep -o "exit [0-9]$" | tail -1)
  if echo "$out" | grep -q "^VIOLATION"; then echo "$d $p FALSE-ALARM"; echo "$out" | grep -E "failed obligation" | head -3 | cut -c1-200
  elif [ "$rc" = "exit 0" ]; then echo "$d $p ok"
  else echo "$d $p undecided"; echo "$out" | grep "^UNDECIDED" | head -3 | cut -c1-200; fi
  rm -rf "$work" "$rep"
done
