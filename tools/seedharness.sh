#!/bin/sh
# tools/seedharness.sh <seed> <pkg> <harness> <test> : run one harness directly against a scratch copy with the seed applied
seed="/verif/seeded/$1"; pkg=$2; h=$3; t=$4
work=$(mktemp -d /var/tmp/seedrepo.XXXXXX)
rsync -a --exclude .git /repo/ "$work/"
cd "$work" && patch -p1 --fuzz=3 -s < "$seed/patch.diff" >/dev/null 2>&1 || { echo "patch does not apply"; rm -rf "$work"; exit 3; }
ov=$(mktemp /var/tmp/ov.XXXX.json)
echo "{\"Replace\":{\"$work/$pkg/zz_tvc_harness_test.go\":\"/verif/harness/$h\"}}" > $ov
GOFLAGS=-mod=mod GOPROXY=off go test -overlay $ov -tags default_build -vet=off -timeout 300s -run "^$t\$" -v ./$pkg/ 2>&1 | grep -E "TVC-|^ok|^FAIL|panic" | cut -c1-300 | head -12
rm -rf "$work" "$ov"
