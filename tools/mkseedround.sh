#!/bin/sh
# tools/mkseedround.sh : (round 7) scratch worktrees /tmp/seedwt-<id>-7 and -h2 (contract files removed) and the prompt files
# for the sub-agents under /tmp/seedout. Agents see only the property text; remove worktrees and /tmp/seedout afterwards.
cd /repo && ids="C01 C02 C03 C04 C05 C06 C07 C08 C09 C10 C11 C12 C14 C15 C16 C17 C18 C19 C20"; for id in $ids; do wt=/tmp/seedwt-$id-7; rm -rf $wt; git worktree add -q -f --detach $wt HEAD 2>&1 | tail -1; (cd $wt && find . -name zz_verif_contracts.go -delete && git -c user.name=x -c user.email=x@x commit -qam "scratch base (no contract files)" ); done; for id in C01 C02 C03 C04 C05 C06 C07 C08 C09 C10 C11 C12 C14 C15 C16 C17 C18 C19 C20; do wt=/tmp/seedwt-$id-h2; rm -rf $wt; git worktree add -q -f --detach $wt HEAD 2>&1 | tail -1; (cd $wt && find . -name zz_verif_contracts.go -delete && git -c user.name=x -c user.email=x@x commit -qam "scratch base (no contract files)" ); done; mkdir -p /tmp/seedout; python3 - <<'EOF'
import json,glob,os
props={}
for l in open('/verif/properties.jsonl'):
    d=json.loads(l); props[d['id']]=d
prev={}
for m in sorted(glob.glob('/verif/seeded/*/meta.json')):
    sid=os.path.basename(os.path.dirname(m)); d=json.load(open(m))
    prev.setdefault(sid.split('-')[0],[]).append((str(d.get('clause_broken',''))[:160]+' [in '+str(d.get('function_changed',''))[:60]+']'))
base=open('/dev/null').read()
harm='''You are helping to evaluate verification machinery for the Go project AliyunContainerService/terway (a Kubernetes CNI plugin for Alibaba Cloud). Your job: produce ONE realistic code change that BREAKS the semantic property below while still compiling and passing the existing test suite. You are NOT shown how the property is checked; do not look for any verification tooling (do not read anything under /verif; it is off limits, and do not inspect git history).

PROPERTY {id}: {title}
Statement: {statement}
Quantified over: {quant}
Files most relevant: {files}
Mechanisms the property rests on (where they live): {mech}

Six changes already exist for this property (clause broken [function changed]); yours must break the property in a function none of them changed — look at helpers, callers, constructors, (de)serialisers, sibling code paths (EFLO vs ECS, IPv6 vs IPv4, trunk vs secondary, CRD vs local IPAM) and other packages the property's behaviour passes through:
{prev}

Your scratch copy is the git worktree /tmp/seedwt-{id}-7 (work ONLY there; never touch /repo or other /tmp/seedwt-* directories; never use `git stash`; do not commit).
Environment: no network. For every go command use `GOFLAGS=-mod=mod GOPROXY=off`. Most packages need the build tag: `go build -tags default_build ./...`, `go test -tags default_build -vet=off -count=1 ./pkg/...`. A few helper packages (types, pkg/ip, pkg/tc, pkg/link, pkg/utils, ...) also build and test WITHOUT the tag and their tests must keep passing both ways. (The ginkgo `TestControllers`/`TestAPIs`/`TestSource` suites need a kube-apiserver binary that is not installed; skip those.)

Requirements for the change:
1. It is small (ideally < 40 changed lines), looks like something a maintainer could plausibly commit (a refactor, an "optimisation", a simplification, a reordered statement, a slightly wrong condition, a helper extracted with a subtle difference) and carries a plausible comment. Not sabotage that any reviewer would spot at once, and not a change that merely deletes the feature.
2. `go build -tags default_build ./...` still succeeds and the tests that passed before still pass (run at least the tests of the packages you touch, with and without the tag where they compile, and `go vet -tags default_build` on them). Do not edit existing test files.
3. It really breaks the property for some input / history / interleaving that the quantifier covers: write a NEW small Go test file (name it zz_seed_demo_test.go in the package you changed) that FAILS on your changed tree and PASSES on the unchanged tree (verify both: NEVER use `git stash` — instead copy your demo test into a second clean checkout created with `git -C /tmp/seedwt-{id}-7 worktree add --detach /tmp/seedwt-{id}-7-clean HEAD`, run it there, then remove that worktree with `git worktree remove --force`). If your demo needs a path on disk, use a temporary directory, never a system path.
4. Ordinary use must keep working: the change should only show under the specific circumstances you describe.

Deliver into the directory /tmp/seedout/{id}-7/ (create it):
- patch.diff : output of `git -C /tmp/seedwt-{id}-7 diff` for the production code only (NOT the demo test file). It must apply with `patch -p1` on a tree identical to your worktree's HEAD.
- demo/ : your demo test file(s).
- meta.json : JSON object with keys property ("{id}"), clause_broken, what_it_needs_to_manifest, files_changed (list), function_changed, demo_cmd, demo_files (list), ran (list of strings: commands you ran and results, including the demo failing on the changed tree and passing on the clean one).
Finish by printing a one-paragraph summary. Do not leave other files under /tmp/seedout.'''
harmless='''You are helping to evaluate verification machinery for the Go project AliyunContainerService/terway (a Kubernetes CNI plugin for Alibaba Cloud). The machinery must NOT raise an alarm on code changes that preserve behaviour. Your job: produce ONE realistic, strictly BEHAVIOUR-PRESERVING refactoring of the code that implements the property below. You are NOT shown how the property is checked; do not look for any verification tooling (do not read anything under /verif; it is off limits, and do not inspect git history).

PROPERTY {id}: {title}
Statement: {statement}
Files most relevant: {files}
Mechanisms the property rests on (where they live): {mech}

Your scratch copy is the git worktree /tmp/seedwt-{id}-h2 (work ONLY there; never touch /repo or other /tmp/seedwt-* directories; never use `git stash`; do not commit).
Environment: no network. For every go command use `GOFLAGS=-mod=mod GOPROXY=off`. Most packages need the build tag: `go build -tags default_build ./...`, `go test -tags default_build -vet=off -count=1 ./pkg/...`. (The ginkgo `TestControllers`/`TestAPIs`/`TestSource` suites need a kube-apiserver binary that is not installed; skip those.)

An earlier refactoring already touched: {hprev}. Choose OTHER functions this time — including helpers, callers and sibling code paths that the property's behaviour passes through (decoders of stored records, status handlers, config loaders, per-family IPv4/IPv6 blocks).

Requirements:
1. Refactor one or two functions, the way a maintainer tidying up would: e.g. invert an if/else, turn an if-chain into a switch (or back), reorder statements that do not depend on each other, introduce or inline a local variable, rename a local variable, hoist a loop-invariant expression, replace `x = append(x, y)` patterns by an equivalent form, merge two identical guards, use an early `continue` instead of nesting. 10–40 changed lines. Keep exported names and signatures. Do NOT extract new helper functions and do not move code to other functions (keep it a local refactoring).
2. The change must preserve behaviour EXACTLY for every input, state and interleaving: same results, same side effects in the same order with respect to any externally visible call (cloud client, Kubernetes client, storage, logging may be reordered), same locking. Be careful with short-circuit evaluation, map iteration, shadowed variables and error values. If you are not sure an edit is behaviour-preserving, do not make it.
3. `go build -tags default_build ./...` succeeds, `go vet -tags default_build` on the touched packages is clean, and the existing tests of the touched packages pass.

Deliver into the directory /tmp/seedout/{id}-h2/ (create it):
- patch.diff : output of `git -C /tmp/seedwt-{id}-h2 diff`. It must apply with `patch -p1` on a tree identical to your worktree's HEAD.
- meta.json : JSON object with keys property ("{id}"), what_changed (a precise description of each edit and why it preserves behaviour), files_changed (list), function_changed, ran (list of commands run and results).
Finish by printing a one-paragraph summary. Do not leave other files under /tmp/seedout.'''
for pid in "C01 C02 C03 C04 C05 C06 C07 C08 C09 C10 C11 C12 C14 C15 C16 C17 C18 C19 C20".split():
    p=props[pid]
    pv='\n'.join('- '+x for x in prev.get(pid,[]))
    mech='; '.join('%s (%s)'%(m['name'],m['where']) for m in p['anchors']['mechanism'])
    open('/tmp/seedout/prompt-%s.txt'%pid,'w').write(harm.format(id=pid,title=p['title'],statement=p['statement'],quant=p['quantifier']['text'],files=', '.join(p['anchors']['files']),prev=pv,mech=mech))
for pid in "C01 C02 C03 C04 C05 C06 C07 C08 C09 C10 C11 C12 C14 C15 C16 C17 C18 C19 C20".split():
    p=props[pid]
    mech='; '.join('%s (%s)'%(m['name'],m['where']) for m in p['anchors']['mechanism'])
    hp='nothing'
    try: hp=str(json.load(open('/verif/harmless/%s-h/meta.json'%pid)).get('function_changed','nothing'))[:200]
    except Exception: pass
    open('/tmp/seedout/hprompt-%s.txt'%pid,'w').write(harmless.format(hprev=hp,id=pid,title=p['title'],statement=p['statement'],files=', '.join(p['anchors']['files']),mech=mech))
print('ok')
EOF
git -C /repo worktree list | wc -l
