#!/usr/bin/env python3
# regenerates MANIFEST.json from tools/claims.json (one entry per claimed property) and properties.jsonl
import json,subprocess,os
V='/verif'
props=[json.loads(l) for l in open(V+'/properties.jsonl')]
claims=json.load(open(V+'/tools/claims.json'))
hooks=subprocess.run(['git','-C','/repo','log','--format=%h %s'],capture_output=True,text=True).stdout.strip().split('\n')
hook_commits=[l.split()[0] for l in hooks if 'verif hook' in l]
checks=[];na=[]
for p in props:
    c=claims.get(p['id'])
    if c and c.get('claim'):
        checks.append({"property_id":p['id'],"quick_cmd":"./check %s quick"%p['id'],"thorough_cmd":"./check %s thorough"%p['id'],
          "evidence_file":"/verif/evidence/%s.json"%p['id'],"replay_cmd_template":"cat {path}","engine":"tvc",
          "level_claimed":{"category":"proof","text":c['text'],"design_ref":c.get('design_ref','DESIGN.md section 5, '+p['id'])},
          "level_note":c['note'],"technique":c.get('technique',"contract-based deductive verification: weakest-precondition VCs generated from go/ssa of the real functions, contracts in guarded comment files, discharged by z3/cvc5")})
    else:
        na.append({"property_id":p['id'],"reason":(c or {}).get('reason',"check not built yet; see DESIGN.md section 5")})
m={"version":1,"setup_cmd":"cd /verif && ./setup.sh",
 "hooks":{"guard":"verif","enable":"contracts are comment-only files zz_verif_contracts.go with //go:build verif; tvc loads /repo with -tags default_build,verif","baseline_off_cmd":"cd /repo && GOFLAGS=-mod=mod GOPROXY=off go test -vet=off -count=1 -timeout 25m ./...","source_commits":hook_commits,"add_only":True},
 "engines":[{"name":"tvc","path":"/verif/cmd/tvc","serves_properties":[c['property_id'] for c in checks],"kind_free_text":"VC generator over go/ssa (x/tools v0.29.0) with field-indexed heap, faithful slices, maps, loop invariants/unrolling, modular call rule, effect guards; obligations raced on z3 5.1.0 / cvc5 1.0 / z3 4.8.12"}],
 "checks":checks,"not_applicable":na,
 "notes":"exit 0 = all expected obligations discharged (KNOWN-FINDING lines allowed); exit 1 + VIOLATION line = an obligation failed; exit 2 = UNDECIDED (tree does not load, contract target missing, vacuity check failed). See DESIGN.md."}
json.dump(m,open(V+'/MANIFEST.json','w'),indent=1)
print(len(checks),'checks',len(na),'n/a')
