#!/bin/sh
# tools/seedall.sh [seed...] : run every seeded change (or the named ones) against the check of its property, 4 at a time.
# Output: one line per seed: <seed> <property> caught|MISSED|undecided
cd /verif
claimed=$(python3 -c "
import json
d=json.load(open('tools/claims.json'))
print(' '.join(sorted(k for k,v in d.items() if v.get('claim'))))")
seeds="$*"
[ -z "$seeds" ] && seeds=$(ls seeded)
run() {
  s=$1; p=${s%%-*}
  case " $claimed " in *" $p "*) ;; *) echo "$s $p not-claimed"; return;; esac
  out=$(tools/seedtest.sh "$s" "$p" 2>&1)
  if echo "$out" | grep -q "^VIOLATION"; then echo "$s $p caught $(echo "$out" | grep -c '^VIOLATION') $(echo "$out" | grep -q 'no-failing-input-found' && echo nfi)";
  elif echo "$out" | grep -q "^UNDECIDED"; then echo "$s $p undecided";
  else echo "$s $p MISSED"; fi
}
n=0
for s in $seeds; do
  run "$s" &
  n=$((n+1))
  if [ $((n % 3)) -eq 0 ]; then wait; fi
done
wait
