package main

import (
	"os"
	"fmt"
	"go/token"
	"go/types"
	"sort"
	"strings"

	"golang.org/x/tools/go/ssa"
)

// ---------------------------------------------------------------------------
// Running a function body (top-level or inlined)
// ---------------------------------------------------------------------------

func (x *FnExec) newFrame(fn *ssa.Function, spec *FuncSpec, params, free []Val, depth int) *frame {
	x.frameN++
	fr := &frame{fn: fn, params: params, free: free, spec: spec, depth: depth, callOrd: map[string]int{}, tag: fmt.Sprintf("f%d", x.frameN)}
	fr.loops, fr.loopOf = analyzeLoops(fn, spec)
	// call-site ordinals in source (block, instruction) order — independent of the order blocks are processed in
	fr.siteOrd = map[ssa.Instruction]int{}
	var sites []ssa.Instruction
	for _, b := range fn.Blocks {
		for _, in := range b.Instrs {
			if _, ok := in.(ssa.CallInstruction); ok {
				sites = append(sites, in)
			}
		}
	}
	// source order (position), falling back to block order for synthetic calls without a position
	sort.SliceStable(sites, func(i, j int) bool {
		pi, pj := sites[i].Pos(), sites[j].Pos()
		if pi.IsValid() && pj.IsValid() && pi != pj {
			return pi < pj
		}
		return false
	})
	cnt := map[string]int{}
	for _, in := range sites {
		k := calleeKey(in.(ssa.CallInstruction).Common())
		cnt[k]++
		fr.siteOrd[in] = cnt[k]
	}
	return fr
}

// runBody executes fn from the given state; returns the merged exit (reach, state, results).
func (x *FnExec) runBody(fr *frame, st *State, reach string) (*exitInfo, error) {
	fr.oldState = st.clone()
	topo, err := x.expand(fr)
	if err != nil {
		return nil, err
	}
	var exits []*exitInfo
	for _, n := range topo {
		// ---- entry: reach, env, state merge
		if len(n.preds) == 0 {
			if n.b.Index != 0 {
				// unreachable block (e.g. recover block)
				n.reach = "false"
				n.env = map[ssa.Value]Val{}
				n.st = st.clone()
				continue
			}
			n.reach = reach
			n.env = map[ssa.Value]Val{}
			n.st = st.clone()
		} else {
			x.mergeInto(fr, n)
		}
		if n.reach == "false" {
			n.outSt = n.st
			for _, e := range n.succs {
				e.cond = "false"
			}
			continue
		}
		// ---- cut-loop header
		if li, ok := fr.loops[n.b]; ok && li.unroll == 0 {
			x.cutLoop(fr, n, li)
		}
		// ---- instructions
		ex, err := x.runBlock(fr, n)
		if err != nil {
			return nil, err
		}
		if ex != nil {
			exits = append(exits, ex)
		}
	}
	// merge exits
	if len(exits) == 0 {
		return &exitInfo{reach: "false", st: st.clone()}, nil
	}
	if len(exits) == 1 {
		return exits[0], nil
	}
	out := &exitInfo{}
	var rs []string
	for _, e := range exits {
		rs = append(rs, e.reach)
	}
	out.reach = x.q.define(fr.tag+"_exit", "Bool", or(rs...))
	out.st = x.mergeStates(fr.tag+"_exit", exits)
	nres := len(exits[0].results)
	for i := 0; i < nres; i++ {
		var vs []Val
		for _, e := range exits {
			vs = append(vs, e.results[i])
		}
		out.results = append(out.results, x.mergeVals(fmt.Sprintf("%s_res%d", fr.tag, i), vs, rs))
	}
	return out, nil
}

func (x *FnExec) mergeStates(hint string, exits []*exitInfo) *State {
	st := &State{heap: map[string]string{}}
	keys := map[string]bool{}
	for _, e := range exits {
		for k := range e.st.heap {
			keys[k] = true
		}
	}
	var ks []string
	for k := range keys {
		ks = append(ks, k)
	}
	sort.Strings(ks)
	for _, k := range ks {
		var terms, conds []string
		same := true
		first := ""
		for i, e := range exits {
			t, ok := e.st.heap[k]
			if !ok {
				t = k // initial
				if _, declared := x.q.heaps[k]; !declared {
					// state var (iterator / ghost) unknown on this path: skip merge
					t = ""
				}
			}
			terms = append(terms, t)
			conds = append(conds, e.reach)
			if i == 0 {
				first = t
			} else if t != first {
				same = false
			}
		}
		if same {
			if first != "" {
				st.heap[k] = first
			}
			continue
		}
		srt, ok := x.q.heaps[k]
		if !ok {
			srt = x.stateVarSort(k)
		}
		if srt == "" {
			continue
		}
		if os.Getenv("TVC_MERGE_EQ") != "" || x.q.mode == ModeBV { // bit-vector proofs (C14) run several times faster with equations
			m := x.q.freshConst("m_"+k, srt)
			for i, t := range terms {
				if t == "" {
					continue
				}
				x.q.assert(implies(conds[i], eq(m, t)))
			}
			st.heap[k] = m
			continue
		}
		// the merged heap is the heap of the path taken: a conditional term, not an equation between heaps (equations
		// between arrays cost the solver extensionality reasoning)
		var mt string
		for i := len(terms) - 1; i >= 0; i-- {
			if terms[i] == "" {
				continue
			}
			if mt == "" {
				mt = terms[i]
			} else if terms[i] != mt {
				mt = ite(conds[i], terms[i], mt)
			}
		}
		st.heap[k] = x.q.define("m_"+k, srt, mt)
	}
	return st
}

var stateVarSorts = map[string]string{}

func (x *FnExec) stateVarSort(k string) string { return stateVarSorts[k] }

func (x *FnExec) mergeVals(hint string, vs []Val, conds []string) Val {
	same := true
	for _, v := range vs[1:] {
		if v.key() != vs[0].key() {
			same = false
		}
	}
	if same {
		return vs[0]
	}
	if len(vs[0].Tuple) > 0 {
		out := Val{T: vs[0].T}
		for i := range vs[0].Tuple {
			var col []Val
			for _, v := range vs {
				col = append(col, v.Tuple[i])
			}
			out.Tuple = append(out.Tuple, x.mergeVals(fmt.Sprintf("%s_%d", hint, i), col, conds))
		}
		return out
	}
	srt := x.q.sortOf(vs[0].T)
	if vs[0].T == nil {
		srt = vs[0].Sort
	}
	m := x.q.freshConst("phi_"+hint, srt)
	for i, v := range vs {
		x.q.assert(implies(conds[i], eq(m, x.scalar(v))))
	}
	out := Val{S: m, T: vs[0].T, Sort: vs[0].Sort}
	// keep statically known function value if all agree
	if vs[0].Fn != nil {
		all := true
		for _, v := range vs {
			if v.Fn != vs[0].Fn {
				all = false
			}
		}
		if all {
			out.Fn, out.Binds = vs[0].Fn, vs[0].Binds
		}
	}
	return out
}

func (x *FnExec) mergeInto(fr *frame, n *node) {
	var conds []string
	for _, e := range n.preds {
		conds = append(conds, e.cond)
	}
	n.reach = x.q.define(fmt.Sprintf("%s_r%s", fr.tag, mangle(n.key)), "Bool", or(conds...))
	if len(n.preds) == 1 {
		p := n.preds[0].from
		n.env = make(map[ssa.Value]Val, len(p.env)+8)
		for k, v := range p.env {
			n.env[k] = v
		}
		n.st = p.outSt.clone()
		return
	}
	// env: intersection of keys, merged where they differ
	n.env = map[ssa.Value]Val{}
	first := n.preds[0].from.env
	for k, v0 := range first {
		vs := []Val{v0}
		ok := true
		for _, e := range n.preds[1:] {
			v, has := e.from.env[k]
			if !has {
				ok = false
				break
			}
			vs = append(vs, v)
		}
		if !ok {
			continue
		}
		n.env[k] = x.mergeVals(k.Name(), vs, conds)
	}
	var exits []*exitInfo
	for _, e := range n.preds {
		exits = append(exits, &exitInfo{reach: e.cond, st: e.from.outSt})
	}
	n.st = x.mergeStates(fmt.Sprintf("%s_b%s", fr.tag, mangle(n.key)), exits)
}

// ---------------------------------------------------------------------------
// Loop cutting
// ---------------------------------------------------------------------------

func (x *FnExec) loopWriteSet(fr *frame, li *loopInfo) []string {
	out := map[string]bool{}
	x.writeSetBlocks(fr, li.blocks, out, map[*ssa.Function]bool{fr.fn: true})
	if fr.spec != nil {
		for _, m := range fr.spec.LoopMod[li.ordinal] {
			names, err := x.eng.resolveHeapSpec(x, fr.spec.Pkg, m)
			if err == nil {
				for _, nm := range names {
					out[nm] = true
				}
			}
		}
	}
	var ks []string
	for k := range out {
		ks = append(ks, k)
	}
	sort.Strings(ks)
	return ks
}

// autoInvariants: simple monotone-counter bounds for header phis (i >= init when i is only ever incremented).
func (x *FnExec) autoInvariants(fr *frame, n *node, li *loopInfo, phiVal func(p *ssa.Phi) string) []string {
	var out []string
	for _, in := range n.b.Instrs {
		p, ok := in.(*ssa.Phi)
		if !ok {
			break
		}
		if !isInteger(p.Type()) {
			continue
		}
		var initC *ssa.Const
		dir := 0
		okPat := true
		for i, e := range p.Edges {
			pred := n.b.Preds[i]
			if !li.blocks[pred] {
				if c, isC := e.(*ssa.Const); isC && initC == nil {
					initC = c
				} else if isC && initC != nil && c.Value != nil && initC.Value != nil && c.Int64() == initC.Int64() {
				} else {
					okPat = false
				}
				continue
			}
			d := stepDir(e, p, 0)
			if d == 0 {
				okPat = false
			} else if dir == 0 {
				dir = d
			} else if dir != d {
				okPat = false
			}
		}
		if !okPat || initC == nil || dir == 0 {
			continue
		}
		init := x.constVal(initC).S
		if dir > 0 {
			out = append(out, x.cmp(">=", phiVal(p), init, p.Type()))
		} else {
			out = append(out, x.cmp("<=", phiVal(p), init, p.Type()))
		}
		// range-over-slice shape: header tests (p+1) < len(s) with s fixed before the loop and p starting at -1:
		// then p < len(s) throughout (and p+1 == len(s) on exit)
		if dir > 0 && initC.Value != nil && initC.Int64() == -1 {
			if iff, ok := n.b.Instrs[len(n.b.Instrs)-1].(*ssa.If); ok {
				if cmpI, ok := iff.Cond.(*ssa.BinOp); ok && cmpI.Op == token.LSS {
					if inc, ok := cmpI.X.(*ssa.BinOp); ok && inc.Op == token.ADD && inc.X == p {
						if c1, ok := inc.Y.(*ssa.Const); ok && c1.Value != nil && c1.Int64() == 1 {
							if call, ok := cmpI.Y.(*ssa.Call); ok {
								if bi, ok := call.Call.Value.(*ssa.Builtin); ok && bi.Name() == "len" && !li.blocks[call.Block()] {
									if lv, ok := n.env[call]; ok {
										out = append(out, x.cmp("<", phiVal(p), lv.S, p.Type()))
									}
								}
							}
						}
					}
				}
			}
		}
	}
	return out
}

// stepDir: +1 if v == p + positive const (possibly through inner phis), -1 if p - const, 0 unknown
func stepDir(v ssa.Value, p *ssa.Phi, depth int) int {
	if depth > 4 {
		return 0
	}
	if v == p {
		return 0
	}
	switch b := v.(type) {
	case *ssa.BinOp:
		c, ok := b.Y.(*ssa.Const)
		if !ok || c.Value == nil {
			return 0
		}
		if b.X != p {
			// allow chains: (p+1)+1 or phi of p and p+1
			d := stepDirOrSelf(b.X, p, depth+1)
			if d == 0 {
				return 0
			}
			if b.Op == token.ADD && c.Int64() >= 0 && d >= 0 {
				return 1
			}
			return 0
		}
		if b.Op == token.ADD && c.Int64() > 0 {
			return 1
		}
		if b.Op == token.SUB && c.Int64() > 0 {
			return -1
		}
	case *ssa.Phi:
		// inner join: every edge must be p itself or a step in the same direction
		dir := 0
		for _, e := range b.Edges {
			d := stepDirOrSelf(e, p, depth+1)
			if d == 0 {
				return 0
			}
			if d == 2 {
				continue
			}
			if dir == 0 {
				dir = d
			} else if dir != d {
				return 0
			}
		}
		if dir == 0 {
			return 0
		}
		return dir
	}
	return 0
}

// returns 2 for "is p itself", else stepDir
func stepDirOrSelf(v ssa.Value, p *ssa.Phi, depth int) int {
	if v == p {
		return 2
	}
	return stepDir(v, p, depth)
}

func (x *FnExec) cutLoop(fr *frame, n *node, li *loopInfo) {
	loopName := fmt.Sprintf("loop%d", li.ordinal)
	// 1. invariant on entry (with merged incoming phi values) — evaluated after phis are computed from entry edges
	entryEnv := map[ssa.Value]Val{}
	for k, v := range n.env {
		entryEnv[k] = v
	}
	var phis []*ssa.Phi
	for _, in := range n.b.Instrs {
		p, ok := in.(*ssa.Phi)
		if !ok {
			break
		}
		phis = append(phis, p)
	}
	for _, p := range phis {
		var vs []Val
		var cs []string
		for _, e := range n.preds {
			idx := predIndex(n.b, e.from.b, e.succIdx)
			vs = append(vs, x.value(fr, e.from.env, p.Edges[idx]))
			cs = append(cs, e.cond)
		}
		entryEnv[p] = x.mergeVals(p.Name()+"_in", vs, cs)
	}
	for i, c := range li.invs {
		g, err := x.evalBool(fr, c.Expr, &evalCtx{env: entryEnv, st: n.st, old: fr.oldState, loop: li, block: n.b})
		if err != nil {
			x.errf("%s: loop %d invariant %q: %v", funcKey(fr.fn), li.ordinal, c.Src, err)
			continue
		}
		x.addObl("inv", fmt.Sprintf("%s[%d].entry", loopName, i), n.reach, g, "loop invariant on entry: "+c.Src, n.b.Instrs[0].Pos())
	}
	auto := x.autoInvariants(fr, n, li, func(p *ssa.Phi) string { return entryEnv[p].S })
	_ = auto // auto invariants hold on entry by construction (phi == init)

	// 2. havoc: phis and written heaps
	for _, p := range phis {
		n.env[p] = x.havocVal(fr.tag+"_"+p.Name(), p.Type(), n.reach)
	}
	allocAtHeader := x.heapGet(n.st, "$alloc", "(Array Ref Bool)")
	// earlier iterations may have allocated: at the header the allocation set is an arbitrary superset of the one before
	// the loop, and every reference carried around the loop points into it
	if os.Getenv("TVC_NO_LOOPALLOC") == "" {
		x.heapHavoc(n.st, "$alloc")
		allocH := n.st.heap["$alloc"]
		x.q.fresh["qv_la"]++
		r := fmt.Sprintf("|r?la%d|", x.q.fresh["qv_la"])
		x.q.assert(fmt.Sprintf("(forall ((%s Ref)) (! (=> (select %s %s) (select %s %s)) :pattern ((select %s %s)) :pattern ((select %s %s))))", r, allocAtHeader, r, allocH, r, allocAtHeader, r, allocH, r))
		for _, p := range phis {
			if v := n.env[p]; v.S != "" && len(v.Tuple) == 0 {
				x.assumeAllocT(n.st, n.reach, v.S, p.Type(), 1)
			}
		}
	}
	for _, h := range x.loopWriteSet(fr, li) {
		if _, ok := x.q.heaps[h]; ok {
			before := x.heapGet(n.st, h, x.q.heaps[h])
			x.heapHavoc(n.st, h)
			if h == "$clock" {
				x.q.assert(fmt.Sprintf("(>= %s %s)", n.st.heap[h], before)) // the clock only moves forward
			}
			// automatic frame: if every write to h inside the loop goes through an object allocated inside the loop
			// (locals, composite literals, varargs arrays), everything allocated before the loop keeps its value
			if strings.HasPrefix(x.q.heaps[h], "(Array Ref ") && x.loopWritesOnlyLoopAllocs(fr, li, h) {
				x.q.fresh["qv_lf"]++
				r := fmt.Sprintf("|r?lf%d|", x.q.fresh["qv_lf"])
				after := n.st.heap[h]
				x.q.assert(fmt.Sprintf("(forall ((%s Ref)) (! (=> (select %s %s) (= (select %s %s) (select %s %s))) :pattern ((select %s %s))))", r, allocAtHeader, r, after, r, before, r, after, r))
			}
		} else if srt := x.stateVarSort(h); srt != "" {
			n.st.heap[h] = x.q.freshConst("hv_iter", srt)
		} else {
			// iterator declared later: mark for havoc at Next
			n.st.heap[h] = ""
		}
	}
	// ghost variables that have update hooks may change in the loop: havoc them (invariants constrain them)
	if x.topSpec != nil {
		seen := map[string]bool{}
		for _, gu := range x.topSpec.Ghost {
			if seen[gu.Var] || !loopHasCallMatching(li, gu.Callee) {
				continue
			}
			seen[gu.Var] = true
			if gv, ok := x.eng.specs.Ghosts[gu.Var]; ok {
				ctx := &evalCtx{env: n.env, st: n.st, old: fr.oldState, block: n.b}
				if fr.fn.Pkg != nil {
					ctx.pkg = fr.fn.Pkg.Pkg
				}
				if cur, err := x.ghostGet(n.st, gv, ctx); err == nil {
					n.st.heap["$ghost:"+gv.Name] = x.q.freshConst("hv_ghost_"+gv.Name, cur.Sort)
				}
			}
		}
	}
	// 3. assume invariants
	for _, c := range li.invs {
		g, err := x.evalBool(fr, c.Expr, &evalCtx{env: n.env, st: n.st, old: fr.oldState, loop: li, block: n.b})
		if err != nil {
			continue
		}
		x.q.assert(implies(n.reach, g))
	}
	for _, a := range x.autoInvariants(fr, n, li, func(p *ssa.Phi) string { return n.env[p].S }) {
		x.q.assert(implies(n.reach, a))
	}
}

func predIndex(b, pred *ssa.BasicBlock, succIdx int) int {
	// index of pred in b.Preds; if pred appears twice (both branches to same block), disambiguate by succIdx
	cnt := 0
	for i, p := range b.Preds {
		if p == pred {
			// which successor slot of pred does this correspond to?
			k := 0
			for j, s := range pred.Succs {
				if s == b {
					if k == cnt {
						if j == succIdx {
							return i
						}
					}
					k++
				}
			}
			cnt++
		}
	}
	for i, p := range b.Preds {
		if p == pred {
			return i
		}
	}
	return 0
}

// backEdge: prove the invariants are preserved along a cut back edge.
func (x *FnExec) backEdge(fr *frame, n *node, e *edge, cond string) {
	li := e.cutLoop
	h := li.header
	env := map[ssa.Value]Val{}
	for k, v := range n.env {
		env[k] = v
	}
	idx := predIndex(h, n.b, e.succIdx)
	var phis []*ssa.Phi
	for _, in := range h.Instrs {
		p, ok := in.(*ssa.Phi)
		if !ok {
			break
		}
		phis = append(phis, p)
	}
	newVals := map[*ssa.Phi]Val{}
	for _, p := range phis {
		newVals[p] = x.value(fr, n.env, p.Edges[idx])
	}
	for p, v := range newVals {
		env[p] = v
	}
	if fr.spec != nil {
		for _, u := range fr.spec.LoopUse[li.ordinal] {
			call, _ := u.Expr.(*ECall)
			pf := x.eng.specs.Pure[call.Fun]
			if pf == nil || !pf.Axiom {
				x.errf("%s: loop %d use %q: not an axiom", funcKey(fr.fn), li.ordinal, u.Src)
				continue
			}
			// evaluated at the end of the back-edge block: header phis still denote the current iteration's values
			g, err := x.evalBool(fr, u.Expr, &evalCtx{env: n.env, st: n.outSt, old: fr.oldState, loop: li, block: n.b, at: n.b.Instrs[len(n.b.Instrs)-1]})
			if err != nil {
				x.errf("%s: loop %d use %q: %v", funcKey(fr.fn), li.ordinal, u.Src, err)
				continue
			}
			x.q.assert(implies(cond, g))
			x.trusted["axiom "+pf.Name+" (assumed; instantiated explicitly): "+pf.Src] = true
		}
	}
	for i, c := range li.invs {
		g, err := x.evalBool(fr, c.Expr, &evalCtx{env: env, st: n.outSt, old: fr.oldState, loop: li, block: h})
		if err != nil {
			x.errf("%s: loop %d invariant %q (back edge): %v", funcKey(fr.fn), li.ordinal, c.Src, err)
			continue
		}
		x.addObl("inv", fmt.Sprintf("loop%d[%d].preserved", li.ordinal, i), cond, g, "loop invariant preserved: "+c.Src, token.NoPos)
	}
}

// ---------------------------------------------------------------------------
// Block execution
// ---------------------------------------------------------------------------

func (x *FnExec) value(fr *frame, env map[ssa.Value]Val, v ssa.Value) Val {
	switch v := v.(type) {
	case *ssa.Const:
		return x.constVal(v)
	case *ssa.Parameter:
		for i, p := range fr.fn.Params {
			if p == v {
				return fr.params[i]
			}
		}
	case *ssa.FreeVar:
		for i, p := range fr.fn.FreeVars {
			if p == v {
				return fr.free[i]
			}
		}
	case *ssa.Global:
		n, s := x.globalHeap(v)
		t := derefType(v.Type())
		return Val{T: v.Type(), Addr: &Addr{Root: rootGlobal, Heap: n, HSort: s, RootT: t, T: t, Global: v}}
	case *ssa.Function:
		return Val{S: x.funcRef(v), T: v.Type(), Fn: v}
	case *ssa.Builtin:
		return Val{S: "nil", T: v.Type()}
	}
	if val, ok := env[v]; ok {
		return val
	}
	x.errf("%s: value %s (%T) not in environment", funcKey(fr.fn), v.Name(), v)
	return x.havocVal("missing_"+v.Name(), v.Type(), "true")
}

func (x *FnExec) funcRef(f *ssa.Function) string {
	name := "fn_" + mangle(f.String())
	if len(name) > 80 {
		name = name[:80]
	}
	return x.q.declare("|"+name+"|", "Ref")
}

func (x *FnExec) runBlock(fr *frame, n *node) (*exitInfo, error) {
	env, st := n.env, n.st
	for _, in := range n.b.Instrs {
		switch in := in.(type) {
		case *ssa.Phi:
			if li, ok := fr.loops[n.b]; ok && li.unroll == 0 {
				continue // havocked by cutLoop
			}
			var vs []Val
			var cs []string
			for _, e := range n.preds {
				idx := predIndex(n.b, e.from.b, e.succIdx)
				vs = append(vs, x.value(fr, e.from.env, in.Edges[idx]))
				cs = append(cs, e.cond)
			}
			if len(vs) == 0 {
				env[in] = x.havocVal(in.Name(), in.Type(), n.reach)
			} else {
				env[in] = x.mergeVals(fr.tag+"_"+in.Name(), vs, cs)
			}
		case *ssa.DebugRef:
		case *ssa.If:
			c := x.value(fr, env, in.Cond).S
			cname := x.q.define(fmt.Sprintf("%s_c%s", fr.tag, mangle(n.key)), "Bool", c)
			n.outSt = st
			for _, e := range n.succs {
				var cond string
				if e.succIdx == 0 {
					cond = and(n.reach, cname)
				} else {
					cond = and(n.reach, not(cname))
				}
				x.finishEdge(fr, n, e, cond)
			}
			return nil, nil
		case *ssa.Jump:
			n.outSt = st
			for _, e := range n.succs {
				x.finishEdge(fr, n, e, n.reach)
			}
			return nil, nil
		case *ssa.Return:
			n.outSt = st
			var rs []Val
			for _, r := range in.Results {
				v := x.value(fr, env, r)
				if v.Addr != nil {
					v = Val{S: x.materialize(v), T: v.T}
				}
				rs = append(rs, v)
			}
			if fr.depth == 0 && x.coverReturns {
				o := x.addObl("vacuity", "return", n.reach, "false", "this return statement is reachable (expected sat; unsat means the proofs of this path are vacuous)", in.Pos())
				o.Vacuity = true
			}
			return &exitInfo{reach: n.reach, st: st, results: rs}, nil
		case *ssa.Panic:
			n.outSt = st
			if x.panics {
				x.addObl("panic", "explicit", n.reach, "false", "reachable panic(...)", in.Pos())
			}
			return nil, nil
		default:
			if err := x.instr(fr, n, in); err != nil {
				return nil, err
			}
		}
	}
	n.outSt = st
	return nil, nil
}

func (x *FnExec) finishEdge(fr *frame, n *node, e *edge, cond string) {
	e.cond = cond
	switch e.kind {
	case 1:
		x.backEdge(fr, n, e, cond)
	case 2:
		x.addObl("unwind", fmt.Sprintf("loop%d", e.cutLoop.ordinal), cond, "false", fmt.Sprintf("loop %d needs more than %d iterations", e.cutLoop.ordinal, e.cutLoop.unroll), token.NoPos)
	}
}

// panicObl adds a runtime-panic obligation if enabled for the function.
func (x *FnExec) panicObl(kind string, reach, goal, desc string, pos token.Pos) {
	if !x.panics {
		return
	}
	x.addObl("panic", kind, reach, goal, desc, pos)
	// after the check, execution continues only if it held
	x.q.assert(implies(reach, goal))
}

func (x *FnExec) nonNil(reach string, v Val, what string, pos token.Pos) {
	if v.Addr != nil || strings.HasPrefix(v.S, "|r_") {
		return // address of a known object / freshly allocated: never nil
	}
	x.panicObl("nil", reach, not(eq(v.S, "nil")), "nil dereference: "+what, pos)
}

func (x *FnExec) instr(fr *frame, n *node, in ssa.Instruction) error {
	env, st, reach := n.env, n.st, n.reach
	switch in := in.(type) {
	case *ssa.Alloc:
		r := x.freshRef(st, in.Comment, reach)
		t := derefType(in.Type())
		v := Val{S: r, T: in.Type()}
		// zero-initialise
		if a := x.pointerAddr(v); a != nil {
			x.storeAddr(st, a, x.q.zero(t))
		}
		env[in] = v
	case *ssa.FieldAddr:
		base := x.value(fr, env, in.X)
		stT := derefType(in.X.Type())
		ft := stT.Underlying().(*types.Struct).Field(in.Field).Type()
		if base.Addr != nil && !(base.Addr.Root == rootField && base.Addr.Idx == "whole" && len(base.Addr.Path) == 0) {
			// nested: extend path
			a := *base.Addr
			a.Path = append(append([]PathStep{}, a.Path...), PathStep{Field: in.Field, Struct: stT})
			a.T = ft
			env[in] = Val{T: in.Type(), Addr: &a}
		} else {
			b := base.S
			if base.Addr != nil {
				b = base.Addr.Base
			}
			x.nonNil(reach, Val{S: b, T: in.X.Type()}, in.X.Name()+"."+stT.Underlying().(*types.Struct).Field(in.Field).Name(), in.Pos())
			hn, hs, _ := x.fieldHeap(stT, in.Field)
			env[in] = Val{T: in.Type(), Addr: &Addr{Root: rootField, Base: b, Heap: hn, HSort: hs, RootT: ft, T: ft}}
		}
	case *ssa.Field:
		base := x.value(fr, env, in.X)
		ft := in.X.Type().Underlying().(*types.Struct).Field(in.Field).Type()
		env[in] = Val{S: x.q.structGet(in.X.Type(), base.S, in.Field), T: ft}
	case *ssa.IndexAddr:
		base := x.value(fr, env, in.X)
		idx := x.toInt(x.value(fr, env, in.Index))
		switch xt := in.X.Type().Underlying().(type) {
		case *types.Slice:
			hn, hs := x.elemHeap(xt.Elem())
			x.panicObl("index", reach, and(x.cmp(">=", idx, x.q.intLit(0, nil), types.Typ[types.Int]), x.cmp("<", idx, "(s_len "+base.S+")", types.Typ[types.Int])), "index out of range: "+in.X.Name()+"["+in.Index.Name()+"]", in.Pos())
			abs := x.arith("+", "(s_off "+base.S+")", idx, types.Typ[types.Int])
			env[in] = Val{T: in.Type(), Addr: &Addr{Root: rootElem, Base: "(s_arr " + base.S + ")", Idx: abs, Heap: hn, HSort: hs, RootT: xt.Elem(), T: xt.Elem()}}
		case *types.Pointer:
			at := xt.Elem().Underlying().(*types.Array)
			x.panicObl("index", reach, and(x.cmp(">=", idx, x.q.intLit(0, nil), types.Typ[types.Int]), x.cmp("<", idx, x.q.intLit(at.Len(), nil), types.Typ[types.Int])), "array index out of range", in.Pos())
			var a Addr
			if base.Addr != nil {
				a = *base.Addr
				a.Path = append([]PathStep{}, a.Path...)
			} else {
				x.nonNil(reach, base, in.X.Name(), in.Pos())
				a = *x.pointerAddr(base)
			}
			if a.Root == rootArr && len(a.Path) == 0 {
				env[in] = Val{T: in.Type(), Addr: &Addr{Root: rootElem, Base: a.Base, Idx: idx, Heap: a.Heap, HSort: a.HSort, RootT: at.Elem(), T: at.Elem()}}
			} else {
				a.Path = append(a.Path, PathStep{Index: idx, ArrT: xt.Elem()})
				a.T = at.Elem()
				env[in] = Val{T: in.Type(), Addr: &a}
			}
		default:
			return fmt.Errorf("IndexAddr on %s", in.X.Type())
		}
	case *ssa.Index:
		base := x.value(fr, env, in.X)
		idx := x.toInt(x.value(fr, env, in.Index))
		switch xt := in.X.Type().Underlying().(type) {
		case *types.Array:
			x.panicObl("index", reach, and(x.cmp(">=", idx, x.q.intLit(0, nil), types.Typ[types.Int]), x.cmp("<", idx, x.q.intLit(xt.Len(), nil), types.Typ[types.Int])), "array index out of range", in.Pos())
			env[in] = Val{S: sel(base.S, idx), T: xt.Elem()}
		case *types.Basic: // string
			x.panicObl("index", reach, and(x.cmp(">=", idx, x.q.intLit(0, nil), types.Typ[types.Int]), x.cmp("<", idx, "(strlen "+base.S+")", types.Typ[types.Int])), "string index out of range", in.Pos())
			env[in] = Val{S: fmt.Sprintf("(str_at %s %s)", base.S, idx), T: in.Type()}
			x.assumeValid(reach, env[in].S, in.Type())
		default:
			// generic / type param
			env[in] = x.havocVal(in.Name(), in.Type(), reach)
		}
	case *ssa.UnOp:
		return x.unop(fr, n, in)
	case *ssa.BinOp:
		a, b := x.value(fr, env, in.X), x.value(fr, env, in.Y)
		env[in] = x.binop(in, a, b, reach)
	case *ssa.Store:
		addr := x.value(fr, env, in.Addr)
		v := x.value(fr, env, in.Val)
		a := x.pointerAddr(addr)
		if a == nil {
			return fmt.Errorf("store through %s", in.Addr.Type())
		}
		if addr.Addr == nil {
			x.nonNil(reach, addr, "*"+in.Addr.Name(), in.Pos())
		}
		x.storeGuards(fr, n, in, a, v)
		if len(a.Path) == 0 && (a.Root == rootElem || (a.Root == rootField && a.Idx != "whole")) {
			x.proveCellInv(fr, st, reach, a.Heap, x.scalar(v), a.T, in.Pos())
		}
		x.storeAddr(st, a, x.scalar(v))
	case *ssa.Convert:
		x.convSt = st
		env[in] = x.convert(x.value(fr, env, in.X), in.X.Type(), in.Type(), reach, in)
	case *ssa.ChangeType:
		v := x.value(fr, env, in.X)
		v.T = in.Type()
		env[in] = v
	case *ssa.MultiConvert:
		env[in] = x.havocVal(in.Name(), in.Type(), reach)
	case *ssa.ChangeInterface:
		v := x.value(fr, env, in.X)
		v.T = in.Type()
		env[in] = v
	case *ssa.MakeInterface:
		v := x.value(fr, env, in.X)
		box, unbox := x.q.boxFn(in.X.Type())
		s := x.scalar(v)
		r := x.q.define(in.Name(), "Iface", fmt.Sprintf("(%s %s)", box, s))
		x.q.assert(and(not(eq(r, "inil")), eq(fmt.Sprintf("(%s %s)", unbox, r), s), eq("(itag "+r+")", fmt.Sprint(x.q.typeID(in.X.Type())))))
		env[in] = Val{S: r, T: in.Type()}
	case *ssa.TypeAssert:
		v := x.value(fr, env, in.X)
		var okT string
		var res Val
		if _, isIface := in.AssertedType.Underlying().(*types.Interface); isIface {
			ok := x.q.freshConst(in.Name()+"_ok", "Bool")
			x.q.assert(implies(eq(v.S, "inil"), not(ok)))
			okT = ok
			res = Val{S: ite(ok, v.S, "inil"), T: in.AssertedType}
		} else {
			_, unbox := x.q.boxFn(in.AssertedType)
			okT = and(not(eq(v.S, "inil")), eq("(itag "+v.S+")", fmt.Sprint(x.q.typeID(in.AssertedType))))
			res = Val{S: ite(okT, fmt.Sprintf("(%s %s)", unbox, v.S), x.q.zero(in.AssertedType)), T: in.AssertedType}
		}
		// whatever an interface value carries existed before this point
		res.S = x.q.define(fr.tag+"_"+in.Name()+"_v", x.q.sortOf(in.AssertedType), res.S)
		x.assumeValid(reach, res.S, in.AssertedType)
		x.assumeAllocT(st, reach, res.S, in.AssertedType, 1)
		if in.CommaOk {
			env[in] = Val{T: in.Type(), Tuple: []Val{res, {S: okT, T: types.Typ[types.Bool]}}}
		} else {
			x.panicObl("typeassert", reach, okT, "unchecked type assertion "+in.X.Name()+".("+in.AssertedType.String()+")", in.Pos())
			env[in] = res
		}
	case *ssa.Extract:
		t := x.value(fr, env, in.Tuple)
		if in.Index >= len(t.Tuple) {
			return fmt.Errorf("extract #%d from non-tuple %s", in.Index, in.Tuple.Name())
		}
		env[in] = t.Tuple[in.Index]
	case *ssa.MakeSlice:
		ln, cp := x.toInt(x.value(fr, env, in.Len)), x.toInt(x.value(fr, env, in.Cap))
		x.panicObl("makeslice", reach, and(x.cmp(">=", ln, x.q.intLit(0, nil), types.Typ[types.Int]), x.cmp("<=", ln, cp, types.Typ[types.Int])), "makeslice: len out of range", in.Pos())
		r := x.freshRef(st, "mkslice", reach)
		et := in.Type().Underlying().(*types.Slice).Elem()
		hn, hs := x.elemHeap(et)
		h := x.heapGet(st, hn, hs)
		zarr := x.q.constArray(fmt.Sprintf("(Array %s %s)", x.q.intSort(), x.q.sortOf(et)), x.q.intSort(), x.q.zero(et))
		x.heapSet(st, hn, hs, sto(h, r, zarr))
		env[in] = Val{S: fmt.Sprintf("(mkslice %s %s %s %s)", r, x.q.intLit(0, nil), ln, cp), T: in.Type()}
	case *ssa.MakeMap:
		r := x.freshRef(st, "mkmap", reach)
		mt := in.Type().Underlying().(*types.Map)
		x.mapInit(st, mt, r)
		env[in] = Val{S: r, T: in.Type()}
	case *ssa.MakeChan:
		env[in] = Val{S: x.freshRef(st, "mkchan", reach), T: in.Type()}
		// `guard makechan <ElemType|*> [in F]: expr` over `size` (the buffer size)
		elemName := ""
		if ct, ok := in.Type().Underlying().(*types.Chan); ok {
			elemName = types.TypeString(ct.Elem(), func(*types.Package) string { return "" })
		}
		for _, g := range x.eng.specs.Guards {
			if g.Kind != "makechan" || (g.Target != "*" && g.Target != elemName) {
				continue
			}
			if g.In != "" && !strings.HasSuffix(funcKey(x.top), "."+g.In) && !strings.HasSuffix(funcKey(fr.fn), "."+g.In) {
				continue
			}
			ctx := &evalCtx{env: n.env, st: n.st, old: fr.oldState, block: n.b, at: in, extra: map[string]Val{"size": x.value(fr, env, in.Size)}}
			goal, err := x.evalBool(fr, g.Expr, ctx)
			if err != nil {
				x.errf("guard makechan %s in %s: %v", g.Target, funcKey(fr.fn), err)
				continue
			}
			o := x.addObl("guard", "makechan:"+g.Target, reach, goal, "guard makechan "+g.Target+": "+g.Src, in.Pos())
			o.Props = g.Props
			g.Hits++
		}
	case *ssa.MakeClosure:
		fn := in.Fn.(*ssa.Function)
		var binds []Val
		for _, b := range in.Bindings {
			binds = append(binds, x.value(fr, env, b))
		}
		r := x.freshRef(st, "closure", reach)
		env[in] = Val{S: r, T: in.Type(), Fn: fn, Binds: binds}
	case *ssa.Slice:
		return x.sliceOp(fr, n, in)
	case *ssa.Lookup:
		return x.lookup(fr, n, in)
	case *ssa.MapUpdate:
		m := x.value(fr, env, in.Map)
		k := x.value(fr, env, in.Key)
		v := x.value(fr, env, in.Value)
		mt := in.Map.Type().Underlying().(*types.Map)
		x.panicObl("nilmap", reach, not(eq(m.S, "nil")), "assignment to entry in nil map "+in.Map.Name(), in.Pos())
		x.mapUpdateGuards(fr, n, in, mt, m, k, v)
		{
			_, mv, _, _, _ := x.mapHeaps(mt)
			x.proveCellInv(fr, st, reach, mv, x.scalar(v), mt.Elem(), in.Pos())
		}
		x.mapStore(st, mt, m.S, x.scalar(k), x.scalar(v))
	case *ssa.Range:
		v := x.value(fr, env, in.X)
		key := iterKey(in)
		if mt, ok := in.X.Type().Underlying().(*types.Map); ok {
			srt := fmt.Sprintf("(Array %s Bool)", x.q.sortOf(mt.Key()))
			stateVarSorts[key] = srt
			st.heap[key] = fmt.Sprintf("((as const %s) false)", srt)
		} else {
			stateVarSorts[key] = x.q.intSort()
			st.heap[key] = x.q.intLit(0, nil)
		}
		env[in] = Val{S: v.S, T: in.X.Type()}
	case *ssa.Next:
		return x.next(fr, n, in)
	case *ssa.Call:
		res, err := x.call(fr, n, in, in.Common(), reach)
		if err != nil {
			return err
		}
		env[in] = res
	case *ssa.Go:
		x.q.note("go statement: spawned function not executed at the spawn site")
		c := in.Common()
		var args []Val
		for _, a := range c.Args {
			args = append(args, x.value(fr, env, a))
		}
		x.siteGuards("go", fr, n, in, c, calleeKey(c), args, reach, 0)
	case *ssa.Defer:
		cp := make(map[ssa.Value]Val, len(env))
		for k, v := range env {
			cp[k] = v
		}
		fr.defers = append(fr.defers, deferred{call: in, guard: reach, env: cp})
	case *ssa.RunDefers:
		for i := len(fr.defers) - 1; i >= 0; i-- {
			d := fr.defers[i]
			// conditional execution: only if the defer statement was reached on this path
			g := and(reach, d.guard)
			if d.guard == reach || d.guard == "true" {
				g = reach
			}
			saved := n.env
			n.env = d.env
			before := st.clone()
			_, err := x.call(fr, n, d.call, d.call.Common(), g)
			n.env = saved
			if err != nil {
				return err
			}
			if g != reach {
				// merge: effects apply only when g
				merged := x.mergeStates(fr.tag+"_defer", []*exitInfo{{reach: g, st: st}, {reach: and(reach, not(d.guard)), st: before}})
				st.heap = merged.heap
			}
		}
	case *ssa.Send:
		x.q.note("channel send: abstracted (no effect)")
	case *ssa.Select:
		x.q.note("select: nondeterministic choice, received values havocked")
		env[in] = x.havocVal(in.Name(), in.Type(), reach)
		if len(env[in].Tuple) > 0 {
			idx := env[in].Tuple[0].S
			lo := -1
			if in.Blocking {
				lo = 0
			}
			x.q.assert(and(x.cmp(">=", idx, x.q.intLit(int64(lo), nil), types.Typ[types.Int]), x.cmp("<", idx, x.q.intLit(int64(len(in.States)), nil), types.Typ[types.Int])))
		}
	case *ssa.SliceToArrayPointer:
		env[in] = x.havocVal(in.Name(), in.Type(), reach)
	default:
		return fmt.Errorf("unsupported instruction %T (%s)", in, in)
	}
	return nil
}

func (x *FnExec) freshRef(st *State, hint, reach string) string {
	if hint == "" {
		hint = "new"
	}
	r := x.q.freshConst("r_"+hint, "Ref")
	al := x.heapGet(st, "$alloc", "(Array Ref Bool)")
	x.q.assert(and(not(eq(r, "nil")), not(sel(al, r))))
	x.heapSet(st, "$alloc", "(Array Ref Bool)", sto(al, r, "true"))
	return r
}

func (x *FnExec) assumeAllocated(st *State, reach, r string) {
	al := x.heapGet(st, "$alloc", "(Array Ref Bool)")
	x.q.assert(implies(reach, or(eq(r, "nil"), sel(al, r))))
}

// assumeAllocT: every reference reachable in one step from a value that already exists (parameter, loaded
// value, call result) denotes an object allocated before now — so it differs from every later allocation.
func (x *FnExec) assumeAllocT(st *State, reach, term string, t types.Type, depth int) {
	if t == nil {
		return
	}
	switch u := t.Underlying().(type) {
	case *types.Pointer, *types.Map, *types.Chan, *types.Signature:
		x.assumeAllocated(st, reach, term)
	case *types.Basic:
		if u.Kind() == types.UnsafePointer {
			x.assumeAllocated(st, reach, term)
		}
	case *types.Slice:
		x.assumeAllocated(st, reach, "(s_arr "+term+")")
	case *types.Struct:
		if depth <= 0 {
			return
		}
		for i := 0; i < u.NumFields(); i++ {
			x.assumeAllocT(st, reach, x.q.structGet(t, term, i), u.Field(i).Type(), depth-1)
		}
	}
}

func (x *FnExec) mapInit(st *State, mt *types.Map, r string) {
	d, v, l, ks, vs := x.mapHeaps(mt)
	ds, vsrt, ls := fmt.Sprintf("(Array Ref (Array %s Bool))", ks), fmt.Sprintf("(Array Ref (Array %s %s))", ks, vs), fmt.Sprintf("(Array Ref %s)", x.q.intSort())
	x.heapSet(st, d, ds, sto(x.heapGet(st, d, ds), r, fmt.Sprintf("((as const (Array %s Bool)) false)", ks)))
	x.heapSet(st, v, vsrt, sto(x.heapGet(st, v, vsrt), r, x.q.constArray(fmt.Sprintf("(Array %s %s)", ks, vs), ks, x.q.zero(mt.Elem()))))
	x.heapSet(st, l, ls, sto(x.heapGet(st, l, ls), r, x.q.intLit(0, nil)))
}

func (x *FnExec) mapStore(st *State, mt *types.Map, m, k, v string) {
	d, vh, l, ks, vs := x.mapHeaps(mt)
	ds, vsrt, ls := fmt.Sprintf("(Array Ref (Array %s Bool))", ks), fmt.Sprintf("(Array Ref (Array %s %s))", ks, vs), fmt.Sprintf("(Array Ref %s)", x.q.intSort())
	dh := x.heapGet(st, d, ds)
	was := sel(sel(dh, m), k)
	lh := x.heapGet(st, l, ls)
	x.heapSet(st, l, ls, sto(lh, m, ite(was, sel(lh, m), x.arith("+", sel(lh, m), x.q.intLit(1, nil), types.Typ[types.Int]))))
	x.heapSet(st, d, ds, sto(dh, m, sto(sel(dh, m), k, "true")))
	vhh := x.heapGet(st, vh, vsrt)
	x.heapSet(st, vh, vsrt, sto(vhh, m, sto(sel(vhh, m), k, v)))
}

func (x *FnExec) mapDelete(st *State, mt *types.Map, m, k string) {
	d, _, l, ks, _ := x.mapHeaps(mt)
	ds, ls := fmt.Sprintf("(Array Ref (Array %s Bool))", ks), fmt.Sprintf("(Array Ref %s)", x.q.intSort())
	dh := x.heapGet(st, d, ds)
	was := and(not(eq(m, "nil")), sel(sel(dh, m), k))
	lh := x.heapGet(st, l, ls)
	x.heapSet(st, l, ls, sto(lh, m, ite(was, x.arith("-", sel(lh, m), x.q.intLit(1, nil), types.Typ[types.Int]), sel(lh, m))))
	x.heapSet(st, d, ds, sto(dh, m, sto(sel(dh, m), k, "false")))
}

func (x *FnExec) mapLen(st *State, mt *types.Map, m string) string {
	_, _, l, _, _ := x.mapHeaps(mt)
	ls := fmt.Sprintf("(Array Ref %s)", x.q.intSort())
	return ite(eq(m, "nil"), x.q.intLit(0, nil), sel(x.heapGet(st, l, ls), m))
}

func (x *FnExec) mapHas(st *State, mt *types.Map, m, k string) string {
	d, _, _, ks, _ := x.mapHeaps(mt)
	ds := fmt.Sprintf("(Array Ref (Array %s Bool))", ks)
	return and(not(eq(m, "nil")), sel(sel(x.heapGet(st, d, ds), m), k))
}

func (x *FnExec) mapGet(st *State, mt *types.Map, m, k string) string {
	_, v, _, ks, vs := x.mapHeaps(mt)
	vsrt := fmt.Sprintf("(Array Ref (Array %s %s))", ks, vs)
	return sel(sel(x.heapGet(st, v, vsrt), m), k)
}

func (x *FnExec) lookup(fr *frame, n *node, in *ssa.Lookup) error {
	env, st, reach := n.env, n.st, n.reach
	m := x.value(fr, env, in.X)
	k := x.value(fr, env, in.Index)
	switch xt := in.X.Type().Underlying().(type) {
	case *types.Map:
		has := x.mapHas(st, xt, m.S, x.scalar(k))
		raw := x.mapGet(st, xt, m.S, x.scalar(k))
		val := x.q.define(in.Name(), x.q.sortOf(xt.Elem()), ite(has, raw, x.q.zero(xt.Elem())))
		x.assumeValid(reach, val, xt.Elem())
		x.assumeAllocT(st, reach, val, xt.Elem(), 1)
		{
			_, mv, _, _, _ := x.mapHeaps(xt)
			// only values actually present obey the invariant (absent keys read as the zero value)
			x.assumeCellInv(fr, st, and(reach, has), mv, raw, xt.Elem())
		}
		// len > 0 if present
		x.q.assert(implies(has, x.cmp(">", x.mapLen(st, xt, m.S), x.q.intLit(0, nil), types.Typ[types.Int])))
		if in.CommaOk {
			env[in] = Val{T: in.Type(), Tuple: []Val{{S: val, T: xt.Elem()}, {S: has, T: types.Typ[types.Bool]}}}
		} else {
			env[in] = Val{S: val, T: xt.Elem()}
		}
	default: // string index
		idx := x.toInt(k)
		x.panicObl("index", reach, and(x.cmp(">=", idx, x.q.intLit(0, nil), types.Typ[types.Int]), x.cmp("<", idx, "(strlen "+m.S+")", types.Typ[types.Int])), "string index out of range", in.Pos())
		env[in] = Val{S: fmt.Sprintf("(str_at %s %s)", m.S, idx), T: in.Type()}
		x.assumeValid(reach, env[in].S, in.Type())
	}
	return nil
}

func (x *FnExec) next(fr *frame, n *node, in *ssa.Next) error {
	env, st, reach := n.env, n.st, n.reach
	r, ok := in.Iter.(*ssa.Range)
	if !ok {
		env[in] = x.havocVal(in.Name(), in.Type(), reach)
		return nil
	}
	key := iterKey(r)
	m := x.value(fr, env, r)
	tup := in.Type().(*types.Tuple)
	if in.IsString {
		okv := x.q.freshConst(in.Name()+"_ok", "Bool")
		idx := x.havocVal(in.Name()+"_i", tup.At(1).Type(), reach)
		rn := x.havocVal(in.Name()+"_r", tup.At(2).Type(), reach)
		x.q.assert(implies(okv, and(x.cmp(">=", idx.S, x.q.intLit(0, nil), types.Typ[types.Int]), x.cmp("<", idx.S, "(strlen "+m.S+")", types.Typ[types.Int]))))
		env[in] = Val{T: in.Type(), Tuple: []Val{{S: okv, T: types.Typ[types.Bool]}, idx, rn}}
		return nil
	}
	mt := r.X.Type().Underlying().(*types.Map)
	vis, has := st.heap[key]
	srt := fmt.Sprintf("(Array %s Bool)", x.q.sortOf(mt.Key()))
	if !has || vis == "" {
		vis = x.q.freshConst("hv_iter", srt)
	}
	okv := x.q.freshConst(in.Name()+"_ok", "Bool")
	k := x.q.freshConst(in.Name()+"_k", x.q.sortOf(mt.Key()))
	x.assumeValid("true", k, mt.Key())
	hasK := x.mapHas(st, mt, m.S, k)
	x.q.assert(implies(and(reach, okv), and(hasK, not(sel(vis, k)))))
	// exhaustion: when !ok every key in dom has been visited
	qk := "k!q"
	d, _, _, ks, _ := x.mapHeaps(mt)
	ds := fmt.Sprintf("(Array Ref (Array %s Bool))", ks)
	domAll := fmt.Sprintf("(forall ((%s %s)) (! (=> (and (not (= %s nil)) (select (select %s %s) %s)) (select %s %s)) :pattern ((select %s %s))))", qk, ks, m.S, x.heapGet(st, d, ds), m.S, qk, vis, qk, vis, qk)
	x.q.assert(implies(and(reach, not(okv)), domAll))
	nv := x.q.define("iter", srt, ite(okv, sto(vis, k, "true"), vis))
	st.heap[key] = nv
	val := x.q.define(in.Name()+"_v", x.q.sortOf(mt.Elem()), x.mapGet(st, mt, m.S, k))
	x.assumeValid(reach, val, mt.Elem())
	x.assumeAllocT(st, reach, val, mt.Elem(), 1)
	x.assumeAllocT(st, reach, k, mt.Key(), 1)
	{
		_, mv, _, _, _ := x.mapHeaps(mt)
		x.assumeCellInv(fr, st, and(reach, okv), mv, val, mt.Elem())
	}
	env[in] = Val{T: in.Type(), Tuple: []Val{{S: okv, T: types.Typ[types.Bool]}, {S: k, T: mt.Key()}, {S: val, T: mt.Elem()}}}
	return nil
}

func (x *FnExec) unop(fr *frame, n *node, in *ssa.UnOp) error {
	env, st, reach := n.env, n.st, n.reach
	v := x.value(fr, env, in.X)
	switch in.Op {
	case token.MUL: // load
		a := x.pointerAddr(v)
		if a == nil {
			return fmt.Errorf("load through %s", in.X.Type())
		}
		if v.Addr == nil {
			x.nonNil(reach, v, "*"+in.X.Name(), in.Pos())
		}
		term := x.loadAddr(st, a)
		t := in.Type()
		// name loaded values to keep terms readable and small
		nm := x.q.define(fr.tag+"_"+in.Name(), x.q.sortOf(t), term)
		x.assumeValid(reach, nm, t)
		if cur, touched := st.heap[a.Heap]; a.Heap != "" && (!touched || cur == a.Heap) {
			// read from a heap this execution has not written: the value existed at function entry
			x.assumeAllocT(&State{heap: map[string]string{}}, reach, nm, t, 1)
		} else {
			x.assumeAllocT(st, reach, nm, t, 1)
		}
		if len(a.Path) == 0 && (a.Root == rootElem || (a.Root == rootField && a.Idx != "whole")) {
			x.assumeCellInv(fr, st, reach, a.Heap, nm, t)
		}
		env[in] = Val{S: nm, T: t}
	case token.NOT:
		env[in] = Val{S: not(v.S), T: in.Type()}
	case token.SUB:
		if isFloat(in.Type()) {
			env[in] = Val{S: "(- " + v.S + ")", T: in.Type()}
		} else if x.mode == ModeBV {
			env[in] = Val{S: "(bvneg " + v.S + ")", T: in.Type()}
		} else {
			env[in] = Val{S: "(- " + v.S + ")", T: in.Type()}
		}
	case token.XOR:
		if x.mode == ModeBV {
			env[in] = Val{S: "(bvnot " + v.S + ")", T: in.Type()}
		} else {
			x.q.note("bitwise complement in Int mode: result arbitrary")
			env[in] = x.havocVal(in.Name(), in.Type(), reach)
		}
	case token.ARROW:
		x.q.note("channel receive: value havocked")
		env[in] = x.havocVal(in.Name(), in.Type(), reach)
	default:
		return fmt.Errorf("unsupported unop %s", in.Op)
	}
	return nil
}

func (x *FnExec) toInt(v Val) string {
	// index operands may be any integer type: widen to int in BV mode
	if x.mode == ModeBV && v.T != nil {
		b := x.q.bitsOf(v.T)
		if b < 64 {
			if isUnsigned(v.T) {
				return fmt.Sprintf("((_ zero_extend %d) %s)", 64-b, v.S)
			}
			return fmt.Sprintf("((_ sign_extend %d) %s)", 64-b, v.S)
		}
	}
	return v.S
}

// cmp emits a comparison for the current mode.
func (x *FnExec) cmp(op, a, b string, t types.Type) string {
	if x.mode == ModeBV && (isInteger(t)) {
		uns := isUnsigned(t)
		m := map[string][2]string{"<": {"bvslt", "bvult"}, "<=": {"bvsle", "bvule"}, ">": {"bvsgt", "bvugt"}, ">=": {"bvsge", "bvuge"}}[op]
		o := m[0]
		if uns {
			o = m[1]
		}
		return fmt.Sprintf("(%s %s %s)", o, a, b)
	}
	return fmt.Sprintf("(%s %s %s)", op, a, b)
}

func (x *FnExec) arith(op, a, b string, t types.Type) string {
	if isFloat(t) {
		return fmt.Sprintf("(%s %s %s)", op, a, b)
	}
	if x.mode == ModeBV {
		m := map[string]string{"+": "bvadd", "-": "bvsub", "*": "bvmul"}
		return fmt.Sprintf("(%s %s %s)", m[op], a, b)
	}
	return fmt.Sprintf("(%s %s %s)", op, a, b)
}

func (x *FnExec) binop(in *ssa.BinOp, a, b Val, reach string) Val {
	t := in.X.Type()
	rt := in.Type()
	as, bs := x.scalar(a), x.scalar(b)
	switch in.Op {
	case token.EQL, token.NEQ:
		var e string
		if _, ok := t.Underlying().(*types.Slice); ok {
			// slice == nil
			if as == x.q.nilSlice() {
				e = eq("(s_arr "+bs+")", "nil")
			} else {
				e = eq("(s_arr "+as+")", "nil")
			}
		} else if _, ok := in.Y.Type().Underlying().(*types.Slice); ok {
			e = eq("(s_arr "+as+")", "nil")
		} else {
			e = eq(as, bs)
		}
		if in.Op == token.NEQ {
			e = not(e)
		}
		return Val{S: e, T: rt}
	case token.LSS, token.LEQ, token.GTR, token.GEQ:
		if isString(t) {
			switch in.Op {
			case token.LSS:
				return Val{S: fmt.Sprintf("(str_lt %s %s)", as, bs), T: rt}
			case token.GTR:
				return Val{S: fmt.Sprintf("(str_lt %s %s)", bs, as), T: rt}
			case token.LEQ:
				return Val{S: fmt.Sprintf("(not (str_lt %s %s))", bs, as), T: rt}
			default:
				return Val{S: fmt.Sprintf("(not (str_lt %s %s))", as, bs), T: rt}
			}
		}
		return Val{S: x.cmp(in.Op.String(), as, bs, t), T: rt}
	case token.ADD:
		if isString(t) {
			r := x.q.define(in.Name(), "Str", fmt.Sprintf("(str_concat %s %s)", as, bs))
			x.q.assert(eq("(strlen "+r+")", x.arith("+", "(strlen "+as+")", "(strlen "+bs+")", types.Typ[types.Int])))
			return Val{S: r, T: rt}
		}
		return x.checked(in, Val{S: x.arith("+", as, bs, t), T: rt}, reach)
	case token.SUB:
		return x.checked(in, Val{S: x.arith("-", as, bs, t), T: rt}, reach)
	case token.MUL:
		return x.checked(in, Val{S: x.arith("*", as, bs, t), T: rt}, reach)
	case token.QUO, token.REM:
		if isFloat(t) {
			return Val{S: fmt.Sprintf("(/ %s %s)", as, bs), T: rt}
		}
		x.panicObl("divzero", reach, not(eq(bs, x.q.intLit(0, t))), "integer division by zero", in.Pos())
		if x.mode == ModeBV {
			op := map[bool]map[token.Token]string{true: {token.QUO: "bvudiv", token.REM: "bvurem"}, false: {token.QUO: "bvsdiv", token.REM: "bvsrem"}}[isUnsigned(t)][in.Op]
			return Val{S: fmt.Sprintf("(%s %s %s)", op, as, bs), T: rt}
		}
		if in.Op == token.QUO {
			return Val{S: fmt.Sprintf("(tdiv %s %s)", as, bs), T: rt}
		}
		return Val{S: fmt.Sprintf("(tmod %s %s)", as, bs), T: rt}
	case token.AND, token.OR, token.XOR, token.AND_NOT, token.SHL, token.SHR:
		if isBool(t) {
			switch in.Op {
			case token.AND:
				return Val{S: and(as, bs), T: rt}
			case token.OR:
				return Val{S: or(as, bs), T: rt}
			}
		}
		if x.mode == ModeBV {
			switch in.Op {
			case token.AND:
				return Val{S: fmt.Sprintf("(bvand %s %s)", as, bs), T: rt}
			case token.OR:
				return Val{S: fmt.Sprintf("(bvor %s %s)", as, bs), T: rt}
			case token.XOR:
				return Val{S: fmt.Sprintf("(bvxor %s %s)", as, bs), T: rt}
			case token.AND_NOT:
				return Val{S: fmt.Sprintf("(bvand %s (bvnot %s))", as, bs), T: rt}
			case token.SHL, token.SHR:
				// shift count may have another width: resize to operand width
				wa, wb := x.q.bitsOf(t), x.q.bitsOf(in.Y.Type())
				cnt := bs
				if wb < wa {
					cnt = fmt.Sprintf("((_ zero_extend %d) %s)", wa-wb, bs)
				} else if wb > wa {
					// saturate: if count >= width result is 0 (or sign)
					cnt = fmt.Sprintf("(ite (bvuge %s (_ bv%d %d)) (_ bv%d %d) ((_ extract %d 0) %s))", bs, wa, wb, wa, wa, wa-1, bs)
				}
				op := "bvshl"
				if in.Op == token.SHR {
					op = "bvlshr"
					if !isUnsigned(t) {
						op = "bvashr"
					}
				}
				return Val{S: fmt.Sprintf("(%s %s %s)", op, as, cnt), T: rt}
			}
		}
		// Int mode: shifts by constants are multiplications; other bit ops are abstracted
		if c, ok := in.Y.(*ssa.Const); ok && c.Value != nil && (in.Op == token.SHL || in.Op == token.SHR) {
			k := c.Int64()
			if k >= 0 && k < 62 {
				p := fmt.Sprint(int64(1) << uint(k))
				if in.Op == token.SHL {
					return Val{S: fmt.Sprintf("(* %s %s)", as, p), T: rt}
				}
				return Val{S: fmt.Sprintf("(div %s %s)", as, p), T: rt}
			}
		}
		x.q.note("bitwise operator in Int mode: result arbitrary (type-valid)")
		return x.havocVal(in.Name(), rt, reach)
	}
	x.errf("unsupported binop %s", in.Op)
	return x.havocVal(in.Name(), rt, reach)
}

// checked: overflow obligation for arith-checked functions (Int mode)
func (x *FnExec) checked(in *ssa.BinOp, v Val, reach string) Val {
	if x.arithChk && x.mode == ModeInt && isInteger(v.T) {
		nm := x.q.define(in.Name(), "Int", v.S)
		x.addObl("overflow", in.Op.String(), reach, x.validFact(nm, v.T, 0), "no overflow in "+in.String(), in.Pos())
		return Val{S: nm, T: v.T}
	}
	return v
}

func (x *FnExec) convert(v Val, from, to types.Type, reach string, in *ssa.Convert) Val {
	fu, tu := from.Underlying(), to.Underlying()
	switch {
	case isInteger(from) && isInteger(to):
		if x.mode == ModeBV {
			fb, tb := x.q.bitsOf(from), x.q.bitsOf(to)
			switch {
			case fb == tb:
				return Val{S: v.S, T: to}
			case fb > tb:
				return Val{S: fmt.Sprintf("((_ extract %d 0) %s)", tb-1, v.S), T: to}
			case isUnsigned(from):
				return Val{S: fmt.Sprintf("((_ zero_extend %d) %s)", tb-fb, v.S), T: to}
			default:
				return Val{S: fmt.Sprintf("((_ sign_extend %d) %s)", tb-fb, v.S), T: to}
			}
		}
		// Int mode: value-preserving when in range; otherwise wraps — we model exact modular wrap for narrowing
		fbits, fs := basicBits(fu.(*types.Basic))
		tbits, ts := basicBits(tu.(*types.Basic))
		if tbits > fbits && (ts || !fs) || (tbits == fbits && ts == fs) {
			return Val{S: v.S, T: to}
		}
		if x.arithChk {
			x.addObl("overflow", "convert", reach, x.validFact(v.S, to, 0), "integer conversion preserves value: "+in.String(), in.Pos())
			return Val{S: v.S, T: to}
		}
		// modular semantics
		mod := fmt.Sprintf("%d", uint64(1)<<uint(tbits%64))
		if tbits >= 64 {
			mod = "18446744073709551616"
		}
		w := fmt.Sprintf("(mod %s %s)", v.S, mod)
		if ts {
			half := fmt.Sprintf("%d", uint64(1)<<uint(tbits-1))
			w = fmt.Sprintf("(ite (>= %s %s) (- %s %s) %s)", w, half, w, mod, w)
		}
		return Val{S: x.q.define(in.Name(), "Int", w), T: to}
	case isInteger(from) && isFloat(to):
		if x.mode == ModeBV {
			return x.havocVal(in.Name(), to, reach)
		}
		return Val{S: "(to_real " + v.S + ")", T: to}
	case isFloat(from) && isInteger(to):
		if x.mode == ModeBV {
			return x.havocVal(in.Name(), to, reach)
		}
		x.q.note("float64 treated as exact real; float->int conversion is truncation of the real value")
		// truncation toward zero
		return Val{S: x.q.define(in.Name(), "Int", fmt.Sprintf("(ite (>= %s 0.0) (to_int %s) (- (to_int (- %s))))", v.S, v.S, v.S)), T: to}
	case isFloat(from) && isFloat(to):
		return Val{S: v.S, T: to}
	case isString(to) || isString(from):
		// string <-> []byte / rune conversions: contents abstracted, lengths preserved for []byte
		if sl, ok := fu.(*types.Slice); ok && isString(to) {
			_ = sl
			r := x.q.freshConst(in.Name(), "Str")
			x.q.assert(eq("(strlen "+r+")", "(s_len "+v.S+")"))
			return Val{S: r, T: to}
		}
		if _, ok := tu.(*types.Slice); ok && isString(from) {
			res := x.havocVal(in.Name(), to, reach)
			x.q.assert(and(eq("(s_len "+res.S+")", "(strlen "+v.S+")"), not(eq("(s_arr "+res.S+")", "nil")), eq("(s_off "+res.S+")", x.q.intLit(0, nil))))
			if el, ok := tu.(*types.Slice).Elem().Underlying().(*types.Basic); ok && el.Kind() == types.Uint8 && x.convSt != nil {
				// the bytes of []byte(s) are a function of s (spec function strBlob)
				x.q.declareSortOnce("Blob")
				x.q.declareFun("lib_strblob", []string{"Str"}, "Blob")
				fr := x.freshRef(x.convSt, in.Name()+"_bytes", reach) // the conversion allocates its result
				x.q.assert(eq("(s_arr "+res.S+")", fr))
				x.q.assert(eq(x.blobOf(x.convSt, res.S), "(lib_strblob "+v.S+")"))
			}
			return res
		}
		if isString(from) && isString(to) {
			return Val{S: v.S, T: to}
		}
		return x.havocVal(in.Name(), to, reach)
	}
	// pointer <-> unsafe.Pointer etc.
	if x.q.sortOf(from) == x.q.sortOf(to) {
		return Val{S: x.scalar(v), T: to}
	}
	return x.havocVal(in.Name(), to, reach)
}

func (x *FnExec) sliceOp(fr *frame, n *node, in *ssa.Slice) error {
	env, reach := n.env, n.reach
	base := x.value(fr, env, in.X)
	zero := x.q.intLit(0, nil)
	I := types.Typ[types.Int]
	var lo, hi, mx string
	if in.Low != nil {
		lo = x.toInt(x.value(fr, env, in.Low))
	} else {
		lo = zero
	}
	switch xt := in.X.Type().Underlying().(type) {
	case *types.Slice:
		if in.High != nil {
			hi = x.toInt(x.value(fr, env, in.High))
		} else {
			hi = "(s_len " + base.S + ")"
		}
		if in.Max != nil {
			mx = x.toInt(x.value(fr, env, in.Max))
		} else {
			mx = "(s_cap " + base.S + ")"
		}
		x.panicObl("slice", reach, and(x.cmp("<=", zero, lo, I), x.cmp("<=", lo, hi, I), x.cmp("<=", hi, mx, I), x.cmp("<=", mx, "(s_cap "+base.S+")", I)), "slice bounds out of range: "+in.String(), in.Pos())
		res := fmt.Sprintf("(mkslice (s_arr %s) %s %s %s)", base.S, x.arith("+", "(s_off "+base.S+")", lo, I), x.arith("-", hi, lo, I), x.arith("-", mx, lo, I))
		env[in] = Val{S: x.q.define(fr.tag+"_"+in.Name(), "Slice", res), T: in.Type()}
	case *types.Basic: // string
		if in.High != nil {
			hi = x.toInt(x.value(fr, env, in.High))
		} else {
			hi = "(strlen " + base.S + ")"
		}
		x.panicObl("slice", reach, and(x.cmp("<=", zero, lo, I), x.cmp("<=", lo, hi, I), x.cmp("<=", hi, "(strlen "+base.S+")", I)), "string slice bounds out of range: "+in.String(), in.Pos())
		r := x.q.define(fr.tag+"_"+in.Name(), "Str", fmt.Sprintf("(str_sub %s %s %s)", base.S, lo, hi))
		x.q.assert(implies(reach, eq("(strlen "+r+")", x.arith("-", hi, lo, I))))
		env[in] = Val{S: r, T: in.Type()}
	case *types.Pointer: // *[N]T
		at := xt.Elem().Underlying().(*types.Array)
		ln := x.q.intLit(at.Len(), nil)
		if in.High != nil {
			hi = x.toInt(x.value(fr, env, in.High))
		} else {
			hi = ln
		}
		if in.Max != nil {
			mx = x.toInt(x.value(fr, env, in.Max))
		} else {
			mx = ln
		}
		x.panicObl("slice", reach, and(x.cmp("<=", zero, lo, I), x.cmp("<=", lo, hi, I), x.cmp("<=", hi, mx, I), x.cmp("<=", mx, ln, I)), "slice bounds out of range: "+in.String(), in.Pos())
		st := n.st
		var ref string
		if base.Addr == nil || (base.Addr.Root == rootArr && len(base.Addr.Path) == 0) {
			if base.Addr == nil {
				x.nonNil(reach, base, in.X.Name(), in.Pos())
				ref = base.S
			} else {
				ref = base.Addr.Base
			}
		} else {
			// slicing an array that lives inside another object: snapshot copy (aliasing with the container is lost)
			x.q.note("slice of an embedded array: aliasing with the containing object not modelled")
			ref = x.freshRef(st, "arrcopy", reach)
			hn, hs := x.elemHeap(at.Elem())
			x.heapSet(st, hn, hs, sto(x.heapGet(st, hn, hs), ref, x.loadAddr(st, base.Addr)))
		}
		res := fmt.Sprintf("(mkslice %s %s %s %s)", ref, lo, x.arith("-", hi, lo, I), x.arith("-", mx, lo, I))
		env[in] = Val{S: x.q.define(fr.tag+"_"+in.Name(), "Slice", res), T: in.Type()}
	default:
		return fmt.Errorf("slice of %s", in.X.Type())
	}
	return nil
}


// ---------------------------------------------------------------------------
// store guards (effect guards on field stores)
// ---------------------------------------------------------------------------

func (x *FnExec) storeGuards(fr *frame, n *node, in *ssa.Store, a *Addr, v Val) {
	if a.Root != rootField || a.Idx == "whole" {
		return
	}
	matchHeap := a.Heap
	if len(a.Path) > 0 {
		// a field of a struct nested by value (node.Spec.Flavor): the guard names the innermost struct type and field
		// ("NodeSpec.Flavor"); `target` is the enclosing object the path starts from
		last := a.Path[len(a.Path)-1]
		if last.Index != "" || last.Struct == nil {
			return
		}
		matchHeap, _, _ = x.fieldHeap(last.Struct, last.Field)
	}
	for _, g := range x.eng.specs.Guards {
		if g.Kind != "store" {
			continue
		}
		if !x.eng.guardMatchesField(g, matchHeap) {
			continue
		}
		if g.In != "" && !strings.HasSuffix(funcKey(x.top), "."+g.In) && !strings.HasSuffix(funcKey(fr.fn), "."+g.In) {
			continue
		}
		if len(x.props) > 0 && len(g.Props) > 0 && !anyCommon(x.props, g.Props) && x.eng.filterProp != "" {
			continue
		}
		ctx := &evalCtx{env: n.env, st: n.st, old: fr.oldState, block: n.b, at: in, extra: map[string]Val{
			"target": {S: a.Base, T: types.NewPointer(structTypeOfHeap(x, a))},
			"value":  {S: x.scalar(v), T: a.T},
		}}
		goal, err := x.evalBool(fr, g.Expr, ctx)
		if err != nil {
			x.errf("guard store %s in %s: %v", g.Target, funcKey(fr.fn), err)
			continue
		}
		o := x.addObl("guard", "store:"+g.Target, n.reach, goal, "guard store "+g.Target+": "+g.Src, in.Pos())
		o.Props = g.Props
		g.Hits++
	}
}

func anyCommon(a, b []string) bool {
	for _, s := range a {
		for _, t := range b {
			if s == t {
				return true
			}
		}
	}
	return false
}

func structTypeOfHeap(x *FnExec, a *Addr) types.Type {
	if t, ok := x.eng.heapStruct[a.Heap]; ok {
		return t
	}
	return types.Typ[types.Int]
}

var _ = strings.Join

// loopWritesOnlyLoopAllocs: every instruction in the loop that may write heap h is a Store whose address is rooted at an
// Alloc executed inside the loop.
func (x *FnExec) loopWritesOnlyLoopAllocs(fr *frame, li *loopInfo, h string) bool {
	var rooted func(v ssa.Value, depth int) bool
	rooted = func(v ssa.Value, depth int) bool {
		if depth > 8 {
			return false
		}
		switch a := v.(type) {
		case *ssa.Alloc:
			return li.blocks[a.Block()]
		case *ssa.FieldAddr:
			return rooted(a.X, depth+1)
		case *ssa.IndexAddr:
			if _, isPtr := a.X.Type().Underlying().(*types.Pointer); isPtr {
				return rooted(a.X, depth+1)
			}
			return false
		}
		return false
	}
	for b := range li.blocks {
		for _, in := range b.Instrs {
			ws := map[string]bool{}
			switch in := in.(type) {
			case *ssa.Store:
				x.addrHeapsOfPointerType(in.Addr.Type(), in.Addr, ws)
				if ws[h] && !rooted(in.Addr, 0) {
					return false
				}
			case *ssa.MapUpdate, *ssa.Next:
				x.writeSetInstrs(fr.fn, []ssa.Instruction{in}, ws, map[*ssa.Function]bool{})
				if ws[h] {
					return false
				}
			case *ssa.MakeClosure:
				x.writeSetFn(in.Fn.(*ssa.Function), ws, map[*ssa.Function]bool{})
				if ws[h] {
					return false
				}
			case ssa.CallInstruction:
				x.writeSetCall(fr.fn, in, ws, map[*ssa.Function]bool{})
				if ws[h] {
					return false
				}
			}
		}
	}
	return true
}

// loopHasCallMatching: some call inside the loop (or inside a closure created in it) matches the callee pattern.
func loopHasCallMatching(li *loopInfo, pattern string) bool {
	var inFn func(f *ssa.Function, depth int) bool
	scan := func(instrs []ssa.Instruction, depth int) bool {
		for _, in := range instrs {
			switch in := in.(type) {
			case ssa.CallInstruction:
				if guardMatchesCallee(pattern, calleeKey(in.Common())) {
					return true
				}
				if mc, ok := in.Common().Value.(*ssa.MakeClosure); ok && depth < 3 && inFn(mc.Fn.(*ssa.Function), depth+1) {
					return true
				}
			case *ssa.MakeClosure:
				if depth < 3 && inFn(in.Fn.(*ssa.Function), depth+1) {
					return true
				}
			}
		}
		return false
	}
	inFn = func(f *ssa.Function, depth int) bool {
		for _, b := range f.Blocks {
			if scan(b.Instrs, depth) {
				return true
			}
		}
		return false
	}
	for b := range li.blocks {
		if scan(b.Instrs, 0) {
			return true
		}
	}
	return false
}

// mapUpdateGuards: effect guards on map writes: `guard mapupdate <KeyTypeName> [in F]: expr` over key, value, target.
func (x *FnExec) mapUpdateGuards(fr *frame, n *node, in *ssa.MapUpdate, mt *types.Map, m, k, v Val) {
	keyName := types.TypeString(mt.Key(), func(*types.Package) string { return "" })
	for _, g := range x.eng.specs.Guards {
		// target: key type name, "*" or "Key->Elem" (element type without package qualifier, e.g. string->*PodRequest)
		elemName := types.TypeString(mt.Elem(), func(*types.Package) string { return "" })
		if g.Kind != "mapupdate" || (g.Target != "*" && g.Target != keyName && g.Target != keyName+"->"+elemName) {
			continue
		}
		if g.In != "" && !strings.HasSuffix(funcKey(x.top), "."+g.In) && !strings.HasSuffix(funcKey(fr.fn), "."+g.In) {
			continue
		}
		if g.Ord != 0 {
			// #k: the k-th map write with this key type in the function, in source order
			ord := 1
			for _, b := range fr.fn.Blocks {
				for _, o := range b.Instrs {
					if mu, ok := o.(*ssa.MapUpdate); ok && mu != in && mu.Pos() < in.Pos() {
						if omt, ok := mu.Map.Type().Underlying().(*types.Map); ok && types.TypeString(omt.Key(), func(*types.Package) string { return "" }) == keyName {
							ord++
						}
					}
				}
			}
			if ord != g.Ord {
				continue
			}
		}
		ctx := &evalCtx{env: n.env, st: n.st, old: fr.oldState, block: n.b, at: in, extra: map[string]Val{
			"target": {S: m.S, T: in.Map.Type()}, "key": {S: x.scalar(k), T: mt.Key()}, "value": {S: x.scalar(v), T: mt.Elem()}}}
		goal, err := x.evalBool(fr, g.Expr, ctx)
		if err != nil {
			x.errf("guard mapupdate %s in %s: %v", g.Target, funcKey(fr.fn), err)
			continue
		}
		o := x.addObl("guard", "mapupdate:"+g.Target, n.reach, goal, "guard mapupdate "+g.Target+": "+g.Src, in.Pos())
		o.Props = g.Props
		g.Hits++
	}
}
