package main

import (
	"os"
	"fmt"
	"go/token"
	"go/types"
	"strings"

	"golang.org/x/tools/go/ssa"
)

// calleeKey: short stable name of a callee for ordinals / guards: "pkg.Recv.Name" or "pkg.Name".
func calleeKey(c *ssa.CallCommon) string {
	if c.IsInvoke() {
		rt := c.Value.Type()
		name := types.TypeString(rt, shortQual)
		return name + "." + c.Method.Name()
	}
	switch v := c.Value.(type) {
	case *ssa.Function:
		return shortFuncName(v)
	case *ssa.Builtin:
		return "builtin." + v.Name()
	case *ssa.MakeClosure:
		return shortFuncName(v.Fn.(*ssa.Function))
	case *ssa.UnOp:
		// call through a package-level function variable (e.g. webhook.Patched = admission.Patched)
		if g, ok := v.X.(*ssa.Global); ok && g.Pkg != nil {
			return g.Pkg.Pkg.Name() + "." + g.Name()
		}
	}
	return "dynamic"
}

func shortFuncName(f *ssa.Function) string {
	k := funcKey(f)
	// instantiated generic: drop the type arguments ("sets.New[net/netip.Addr]" -> "sets.New")
	if i := strings.Index(k, "["); i >= 0 {
		if j := strings.LastIndex(k, "]"); j > i {
			k = k[:i] + k[j+1:]
		}
	}
	// strip directory part of package path: keep last element
	if i := strings.LastIndex(k, "/"); i >= 0 {
		k = k[i+1:]
	}
	if f.Pkg == nil && f.Object() != nil && f.Object().Pkg() != nil {
		// instantiated generic or dependency function
		return k
	}
	return k
}

func (x *FnExec) call(fr *frame, n *node, in ssa.Instruction, c *ssa.CallCommon, reach string) (Val, error) {
	env, st := n.env, n.st
	var resT types.Type = c.Signature().Results()
	if v, ok := in.(ssa.Value); ok {
		resT = v.Type()
	}
	hint := "call"
	if v, ok := in.(ssa.Value); ok {
		hint = fr.tag + "_" + v.Name()
	}
	key := calleeKey(c)
	fr.callOrd[key]++
	ord := fr.siteOrd[in]
	if ord == 0 {
		ord = fr.callOrd[key]
	}

	var args []Val
	for _, a := range c.Args {
		args = append(args, x.value(fr, env, a))
	}

	// effect guards on calls
	x.callGuards(fr, n, in, c, key, args, reach, ord)
	calleeRef := ""
	if _, isFn := c.Value.(*ssa.Function); !isFn && !c.IsInvoke() {
		if _, isB := c.Value.(*ssa.Builtin); !isB {
			if _, isMC := c.Value.(*ssa.MakeClosure); !isMC {
				calleeRef = x.scalar(x.value(fr, env, c.Value))
			}
		}
	}
	gargs := args
	if !c.IsInvoke() && c.Signature().Recv() != nil && len(args) > 0 {
		gargs = args[1:] // arg0.. are the declared parameters, as in guards
	}
	x.ghostUpdates(fr, n, key, ord, "before", gargs, Val{}, reach, calleeRef, in)

	var res Val
	var err error
	switch {
	case c.IsInvoke():
		recv := x.value(fr, env, c.Value)
		x.panicObl("nil", reach, not(eq(recv.S, "inil")), "method call on nil interface "+c.Value.Name()+"."+c.Method.Name(), in.Pos())
		if spec := x.eng.ifaceSpec(c); spec != nil && x.eng.specActive(spec) {
			res, err = x.applySpec(fr, n, in, spec, nil, c.Method.Type().(*types.Signature), append([]Val{recv}, args...), reach, key, hint, resT, true)
		} else if lm := x.eng.libInvokeModel(c); lm != nil {
			res, err = lm.apply(x, fr, n, in, c, append([]Val{recv}, args...), reach, hint)
		} else {
			x.trusted["default summary (interface method): "+key] = true
			x.havocClosureArgs(st, c, reach)
			res = x.havocVal(hint, resT, reach)
			x.assumeResultAllocated(st, reach, res)
		}
	default:
		switch callee := c.Value.(type) {
		case *ssa.Builtin:
			res, err = x.builtin(fr, n, in, callee, c, args, reach, hint, resT)
		case *ssa.Function:
			res, err = x.staticCall(fr, n, in, callee, nil, c, args, reach, key, hint, resT)
		case *ssa.MakeClosure:
			cl := x.value(fr, env, callee)
			res, err = x.staticCall(fr, n, in, callee.Fn.(*ssa.Function), cl.Binds, c, args, reach, key, hint, resT)
		default:
			fv := x.value(fr, env, c.Value)
			if fv.Fn != nil {
				res, err = x.staticCall(fr, n, in, fv.Fn, fv.Binds, c, args, reach, shortFuncName(fv.Fn), hint, resT)
			} else {
				x.q.note("dynamic call through a function value: results arbitrary, no heap effect assumed")
				x.trusted["dynamic call treated as effect-free: in "+funcKey(fr.fn)] = true
				res = x.havocVal(hint, resT, reach)
				x.assumeResultAllocated(st, reach, res)
			}
		}
	}
	if err != nil {
		return Val{}, err
	}
	x.ghostUpdates(fr, n, key, ord, "after", gargs, res, reach, calleeRef, in)
	return res, nil
}

func (x *FnExec) assumeResultAllocated(st *State, reach string, res Val) {
	if len(res.Tuple) > 0 {
		for _, t := range res.Tuple {
			x.assumeResultAllocated(st, reach, t)
		}
		return
	}
	if res.T != nil && res.S != "" {
		x.assumeAllocT(st, reach, res.S, res.T, 1)
	}
}

func (x *FnExec) staticCall(fr *frame, n *node, in ssa.Instruction, callee *ssa.Function, binds []Val, c *ssa.CallCommon, args []Val, reach, key, hint string, resT types.Type) (Val, error) {
	st := n.st
	// nil receiver check for pointer-receiver methods is the callee's business (Go allows nil receivers)
	spec := x.eng.specFor(callee)
	if spec != nil && !spec.Inline && !x.eng.specActive(spec) {
		// a contract that belongs to another property takes no part in this property's argument: neither its
		// precondition is demanded here nor its postcondition assumed — the callee is treated as uncontracted
		spec = nil
	}
	if spec != nil && !spec.Inline {
		return x.applySpec(fr, n, in, spec, callee, callee.Signature, args, reach, key, hint, resT, false)
	}
	if lm := x.eng.libModel(callee); lm != nil {
		x.trusted["library model: "+lm.name] = true
		return lm.apply(x, fr, n, in, c, args, reach, hint)
	}
	if r, ok := x.deepCopyModel(fr, n, in, callee, args, reach, hint, resT); ok {
		return r, nil
	}
	inlineOK := callee.Parent() != nil || (spec != nil && spec.Inline)
	if !inlineOK && spec == nil && x.eng.isRepoFunc(callee) && fr.depth < 3 {
		// small loop-free repository helpers (generated getters, predicates) are executed in place: precise, no assumption
		x.eng.ensureBuilt(callee)
		if smallLoopFree(callee) {
			inlineOK = true
		}
	}
	if inlineOK && x.eng.isRepoFunc(callee) && fr.depth < x.depthLimit {
		x.eng.ensureBuilt(callee)
		if callee.Blocks != nil {
			return x.inlineCall(fr, n, callee, spec, binds, args, reach, hint, resT)
		}
	}
	if x.eng.isRepoFunc(callee) {
		// repository function without contract: results arbitrary, heap effects = its syntactic write set
		x.eng.ensureBuilt(callee)
		ws := map[string]bool{}
		x.writeSetFn(callee, ws, map[*ssa.Function]bool{})
		for h := range ws {
			if srt, ok := x.q.heaps[h]; ok {
				// if the callee writes this heap only through objects it allocates itself, everything that existed
				// before the call keeps its value. The callee's own objects are then represented by refs whose
				// cells were never constrained (the entry heap is arbitrary at such refs), so no havoc is needed.
				if strings.HasPrefix(srt, "(Array Ref ") && x.fnWritesOnlyLocal(callee, h, map[*ssa.Function]bool{}) {
					continue
				}
				x.heapHavocCond(st, h, reach)
			}
		}
		x.havocInteriorArgs(st, args, ws, reach, hint)
		x.trusted["uncontracted repo callee (results arbitrary; write set havocked, except that objects existing before the call are kept where the callee only writes objects it allocates): "+funcKey(callee)] = true
		res := x.havocVal(hint, resT, reach)
		x.assumeResultAllocated(st, reach, res)
		return res, nil
	}
	x.trusted["default summary (dependency call: arbitrary type-valid result, no heap effect except the write sets of closures passed to it): "+shortFuncName(callee)] = true
	x.havocClosureArgs(st, c, reach)
	res := x.havocVal(hint, resT, reach)
	x.assumeResultAllocated(st, reach, res)
	return res, nil
}

// havocClosureArgs: a callee without model or contract may run the closures it is handed any number of times; everything
// those closures may write (captured variables included) is havocked.
func (x *FnExec) havocClosureArgs(st *State, c *ssa.CallCommon, reach string) {
	ws := map[string]bool{}
	for _, a := range c.Args {
		if mc, ok := a.(*ssa.MakeClosure); ok {
			x.writeSetFn(mc.Fn.(*ssa.Function), ws, map[*ssa.Function]bool{})
		}
	}
	for h := range ws {
		if _, ok := x.q.heaps[h]; ok {
			x.heapHavocCond(st, h, reach)
		}
	}
}

// heapHavocCond havocs a heap (the call happens only under reach, but a fresh value is sound either way)
func (x *FnExec) heapHavocCond(st *State, name, reach string) { x.heapHavoc(st, name) }

func (x *FnExec) inlineCall(fr *frame, n *node, callee *ssa.Function, spec *FuncSpec, binds, args []Val, reach, hint string, resT types.Type) (Val, error) {
	sub := x.newFrame(callee, spec, args, binds, fr.depth+1)
	sub.inlineOf = fr
	ex, err := x.runBody(sub, n.st, reach)
	if err != nil {
		return Val{}, fmt.Errorf("inlining %s: %v", funcKey(callee), err)
	}
	// continue in caller only on paths where callee returned
	n.st.heap = ex.st.heap
	if ex.reach != reach {
		x.q.assert(implies(reach, ex.reach)) // callee returns (panics inside are separate obligations / termination not modelled)
	}
	switch len(ex.results) {
	case 0:
		return Val{T: resT}, nil
	case 1:
		return ex.results[0], nil
	}
	return Val{T: resT, Tuple: ex.results}, nil
}

// applySpec: modular call rule — assert requires, havoc modifies, assume ensures.
func (x *FnExec) applySpec(fr *frame, n *node, in ssa.Instruction, spec *FuncSpec, callee *ssa.Function, sig *types.Signature, args []Val, reach, key, hint string, resT types.Type, invoke bool) (Val, error) {
	st := n.st
	extra := map[string]Val{}
	// bind parameter names
	bindNames := func() {
		i := 0
		if callee != nil && len(callee.Params) == 0 && len(args) > 0 {
			x.eng.ensureBuilt(callee)
		}
		if callee != nil && len(callee.Params) > 0 {
			for j, p := range callee.Params {
				if j < len(args) {
					extra[p.Name()] = x.deAddr(args[j])
				}
			}
			return
		}
		if callee != nil && sig.Recv() != nil && len(args) > 0 {
			nm := sig.Recv().Name()
			if nm != "" && nm != "_" {
				extra[nm] = x.deAddr(args[0])
			}
			i = 1
		}
		if invoke {
			extra["recv"] = args[0]
			i = 1
		}
		for j := 0; j < sig.Params().Len(); j++ {
			if i+j < len(args) {
				nm := sig.Params().At(j).Name()
				if nm == "" || nm == "_" {
					nm = fmt.Sprintf("arg%d", j)
				}
				extra[nm] = x.deAddr(args[i+j])
				extra[fmt.Sprintf("arg%d", j)] = x.deAddr(args[i+j])
			}
		}
	}
	bindNames()
	pkg := x.eng.pkgByPath(spec.Pkg)
	pre := st.clone()
	ctx := &evalCtx{env: n.env, st: st, old: pre, extra: extra, noLocals: true, pkg: pkg, block: n.b}
	for i, r := range spec.Requires {
		g, err := x.evalBool(fr, r.Expr, ctx)
		if err != nil {
			x.errf("%s: requires of %s: %v", funcKey(fr.fn), spec.Key, err)
			continue
		}
		o := x.addObl("pre", fmt.Sprintf("%s[%d]", key, i), reach, g, "precondition of "+spec.Key+": "+r.Src, in.Pos())
		_ = o
		x.q.assert(implies(reach, g))
	}
	// havoc modifies
	ws := map[string]bool{}
	if spec.HasMod {
		x.specModifies(spec, ws)
	} else if callee != nil {
		x.eng.ensureBuilt(callee)
		x.writeSetFn(callee, ws, map[*ssa.Function]bool{})
	}
	for h := range ws {
		if _, ok := x.q.heaps[h]; ok {
			x.heapHavoc(st, h)
		}
	}
	x.havocInteriorArgs(st, args, ws, reach, hint)
	// ghost variables the callee's own bookkeeping updates are arbitrary afterwards (its ensures may constrain them)
	{
		seenG := map[string]bool{}
		for _, gu := range spec.Ghost {
			if seenG[gu.Var] {
				continue
			}
			seenG[gu.Var] = true
			if gv, ok := x.eng.specs.Ghosts[gu.Var]; ok {
				gctx := &evalCtx{env: n.env, st: st, old: fr.oldState, block: n.b, pkg: x.eng.pkgByPath(spec.Pkg)}
				if cur, err := x.ghostGet(st, gv, gctx); err == nil {
					st.heap["$ghost:"+gv.Name] = x.q.freshConst("hv_ghost_"+gv.Name, cur.Sort)
				}
			}
		}
	}
	// preserved heaps: pre-existing objects unchanged; allocation only grows
	for _, h := range x.preservedHeaps(spec, callee) {
		if ws[h] {
			if g := x.preserveFact(pre, st, h); g != "" {
				x.q.assert(g)
			}
		}
	}
	if len(spec.Preserves) > 0 {
		// the callee may allocate: alloc grows monotonically
		al0 := x.heapGet(pre, "$alloc", "(Array Ref Bool)")
		x.heapHavoc(st, "$alloc")
		al1 := x.heapGet(st, "$alloc", "(Array Ref Bool)")
		x.q.assert(fmt.Sprintf("(forall ((|r?al| Ref)) (! (=> (select %s |r?al|) (select %s |r?al|)) :pattern ((select %s |r?al|))))", al0, al1, al0))
	}
	// results
	res := x.havocVal(hint, resT, reach)
	x.assumeResultAllocated(st, reach, res)
	rs := res.Tuple
	if len(rs) == 0 && resT != nil {
		if tup, ok := resT.(*types.Tuple); !ok || tup.Len() > 0 {
			rs = []Val{res}
		}
	}
	for i, r := range rs {
		extra[fmt.Sprintf("result%d", i)] = r
		if i == 0 {
			extra["result"] = r
		}
		if i < sig.Results().Len() {
			if nm := sig.Results().At(i).Name(); nm != "" && nm != "_" {
				extra[nm] = r
			}
		}
	}
	post := &evalCtx{env: n.env, st: st, old: pre, extra: extra, noLocals: true, pkg: pkg, block: n.b}
	for _, e := range spec.AssumedEnsures {
		x.trusted["assumed postcondition of "+spec.Key+": "+e.Src] = true
	}
	for _, e := range append(append([]*Clause{}, spec.Ensures...), spec.AssumedEnsures...) {
		g, err := x.evalBool(fr, e.Expr, post)
		if err != nil {
			x.errf("%s: ensures of %s: %v", funcKey(fr.fn), spec.Key, err)
			continue
		}
		x.q.assert(implies(reach, g))
	}
	if spec.Trusted {
		x.trusted["assumed contract (no body verified): "+spec.Pkg+":"+spec.Key] = true
	}
	return res, nil
}

func (x *FnExec) deAddr(v Val) Val {
	if v.Addr != nil {
		return Val{S: x.materialize(v), T: v.T}
	}
	return v
}

// ---------------------------------------------------------------------------
// Effect guards and ghost updates at call sites
// ---------------------------------------------------------------------------

func (x *FnExec) callGuards(fr *frame, n *node, in ssa.Instruction, c *ssa.CallCommon, key string, args []Val, reach string, ord int) {
	x.siteGuards("call", fr, n, in, c, key, args, reach, ord)
}

// siteGuards: obligations at a call site (kind "call") or at a go statement (kind "go": what holds when the goroutine is
// spawned, i.e. the state it is handed)
func (x *FnExec) siteGuards(kind string, fr *frame, n *node, in ssa.Instruction, c *ssa.CallCommon, key string, args []Val, reach string, ord int) {
	for _, g := range x.eng.specs.Guards {
		if g.Kind != kind || !guardMatchesCallee(g.Target, key) {
			continue
		}
		if g.In != "" && !strings.HasSuffix(funcKey(x.top), "."+g.In) && !strings.HasSuffix(funcKey(fr.fn), "."+g.In) {
			continue
		}
		if g.Ord != 0 && g.Ord != ord {
			continue
		}
		extra := map[string]Val{}
		sig := c.Signature()
		off := 0
		if !c.IsInvoke() && sig.Recv() != nil {
			extra["recv"] = x.deAddr(args[0])
			off = 1
		}
		if c.IsInvoke() {
			extra["recv"] = x.value(fr, n.env, c.Value)
		}
		for j := 0; j < sig.Params().Len() && off+j < len(args); j++ {
			nm := sig.Params().At(j).Name()
			extra[fmt.Sprintf("arg%d", j)] = x.deAddr(args[off+j])
			if nm != "" && nm != "_" {
				extra["arg_"+nm] = x.deAddr(args[off+j])
			}
		}
		ctx := &evalCtx{env: n.env, st: n.st, old: fr.oldState, extra: extra, block: n.b, at: in}
		goal, err := x.evalBool(fr, g.Expr, ctx)
		if err != nil {
			x.errf("guard %s %s in %s: %v", kind, g.Target, funcKey(fr.fn), err)
			continue
		}
		g.Hits++
		if g.Label != "" {
			if x.labelled == nil {
				x.labelled = map[string]*labelledGuard{}
			}
			lg := x.labelled[g.Label]
			if lg == nil {
				lg = &labelledGuard{g: g, kind: kind}
				x.labelled[g.Label] = lg
				x.labelOrder = append(x.labelOrder, g.Label)
			}
			lg.goals = append(lg.goals, implies(reach, goal))
			continue
		}
		o := x.addObl("guard", kind+":"+g.Target, reach, goal, "guard "+kind+" "+g.Target+": "+g.Src, in.Pos())
		o.Props = g.Props
	}
}

type labelledGuard struct {
	g     *Guard
	kind  string
	goals []string
}

// flushLabelledGuards: one obligation per `as <label>` guard covering every site met in the function
func (x *FnExec) flushLabelledGuards() {
	for _, l := range x.labelOrder {
		lg := x.labelled[l]
		goal := "true"
		if len(lg.goals) == 1 {
			goal = lg.goals[0]
		} else if len(lg.goals) > 1 {
			goal = "(and " + strings.Join(lg.goals, " ") + ")"
		}
		o := x.addObl("guard", l, "true", goal, fmt.Sprintf("guard %s %s (all %d sites): %s", lg.kind, lg.g.Target, len(lg.goals), lg.g.Src), token.NoPos)
		o.Props = lg.g.Props
	}
	x.labelled, x.labelOrder = nil, nil
}

func guardMatchesCallee(target, key string) bool {
	if target == key {
		return true
	}
	// instantiated generic: "sets.New[net/netip.Addr]" is addressed as "sets.New"
	if i := strings.Index(key, "["); i >= 0 && !strings.Contains(target, "[") {
		j := strings.LastIndex(key, "]")
		if j > i {
			key = key[:i] + key[j+1:]
			if target == key {
				return true
			}
		}
	}
	// allow matching on suffix "Recv.Name" or "Name"
	return strings.HasSuffix(key, "."+target)
}

func (x *FnExec) ghostUpdates(fr *frame, n *node, key string, ord int, when string, args []Val, res Val, reach string, calleeRef string, atInstr ssa.Instruction) {
	// ghost updates belong to the function under verification and also apply inside closures executed in place
	if x.topSpec == nil {
		return
	}
	for _, gu := range x.topSpec.Ghost {
		if gu.When != when || !guardMatchesCallee(gu.Callee, key) || (gu.Ord != 0 && gu.Ord != ord) {
			continue
		}
		gv, ok := x.eng.specs.Ghosts[gu.Var]
		if !ok {
			x.errf("ghost update of undeclared ghost %s", gu.Var)
			continue
		}
		extra := map[string]Val{}
		for j, a := range args {
			extra[fmt.Sprintf("arg%d", j)] = x.deAddr(a)
		}
		if calleeRef != "" {
			extra["callee"] = Val{S: calleeRef, T: types.Typ[types.UnsafePointer]}
		}
		if len(res.Tuple) > 0 {
			for i, r := range res.Tuple {
				extra[fmt.Sprintf("result%d", i)] = r
			}
			extra["result"] = res.Tuple[0]
		} else if res.S != "" {
			extra["result"] = res
			extra["result0"] = res
		}
		ctx := &evalCtx{env: n.env, st: n.st, old: fr.oldState, extra: extra, block: n.b, at: atInstr}
		if fr.fn.Pkg != nil {
			ctx.pkg = fr.fn.Pkg.Pkg
		}
		v, err := x.eval(fr, gu.Expr, ctx)
		if err != nil {
			x.errf("ghost update %s: %v", gu.Src, err)
			continue
		}
		cur, _ := x.ghostGet(n.st, gv, ctx)
		v, _ = x.coerce(v, cur)
		key := "$ghost:" + gv.Name
		n.st.heap[key] = x.q.define("ghost_"+gv.Name, cur.Sort, v.S)
		_ = reach // the state is per-path: the update is only visible on paths through this call
	}
}

// ---------------------------------------------------------------------------
// Builtins
// ---------------------------------------------------------------------------

func (x *FnExec) builtin(fr *frame, n *node, in ssa.Instruction, b *ssa.Builtin, c *ssa.CallCommon, args []Val, reach, hint string, resT types.Type) (Val, error) {
	st := n.st
	I := types.Typ[types.Int]
	switch b.Name() {
	case "len", "cap":
		v := args[0]
		switch t := c.Args[0].Type().Underlying().(type) {
		case *types.Slice:
			return Val{S: "(s_" + b.Name() + " " + v.S + ")", T: I}, nil
		case *types.Basic:
			return Val{S: "(strlen " + v.S + ")", T: I}, nil
		case *types.Map:
			l := x.q.define(hint, x.q.intSort(), x.mapLen(st, t, v.S))
			x.q.assert(x.cmp(">=", l, x.q.intLit(0, nil), I))
			return Val{S: l, T: I}, nil
		case *types.Array:
			return Val{S: x.q.intLit(t.Len(), nil), T: I}, nil
		case *types.Pointer:
			if at, ok := t.Elem().Underlying().(*types.Array); ok {
				return Val{S: x.q.intLit(at.Len(), nil), T: I}, nil
			}
		case *types.Chan:
			r := x.havocVal(hint, I, reach)
			x.q.assert(x.cmp(">=", r.S, x.q.intLit(0, nil), I))
			return r, nil
		}
		return x.havocVal(hint, I, reach), nil
	case "append":
		return x.appendOp(fr, n, in, c, args, reach, hint)
	case "copy":
		// copy(dst, src): dst[0:n] = src[0:n], n = min(len)
		dst, src := args[0], args[1]
		dt := c.Args[0].Type().Underlying().(*types.Slice)
		hn, hs := x.elemHeap(dt.Elem())
		h := x.heapGet(st, hn, hs)
		var slen string
		if isString(c.Args[1].Type()) {
			slen = "(strlen " + src.S + ")"
		} else {
			slen = "(s_len " + src.S + ")"
		}
		cnt := x.q.define(hint+"_n", x.q.intSort(), ite(x.cmp("<=", "(s_len "+dst.S+")", slen, I), "(s_len "+dst.S+")", slen))
		narr := x.q.freshConst(hint+"_arr", fmt.Sprintf("(Array %s %s)", x.q.intSort(), x.q.sortOf(dt.Elem())))
		oldArr := sel(h, "(s_arr "+dst.S+")")
		if x.mode == ModeBV && !isString(c.Args[1].Type()) {
			// quantifier-free expansion for up to 32 elements (longer copies: content arbitrary)
			const K = 32
			chain := oldArr
			srcArr := sel(h, "(s_arr "+src.S+")")
			for j := 0; j < K; j++ {
				pos := x.arith("+", "(s_off "+dst.S+")", x.ilit(int64(j)), I)
				el := sel(srcArr, x.arith("+", "(s_off "+src.S+")", x.ilit(int64(j)), I))
				chain = x.q.define(hint+"_cp", fmt.Sprintf("(Array %s %s)", x.q.intSort(), x.q.sortOf(dt.Elem())), sto(chain, pos, ite(x.cmp("<", x.ilit(int64(j)), cnt, I), el, sel(oldArr, pos))))
			}
			x.q.assert(implies(x.cmp("<=", cnt, x.ilit(K), I), eq(narr, chain)))
			x.q.note("copy() in bit-vector mode: contents modelled for up to 32 elements")
			x.heapSet(st, hn, hs, ite(eq("(s_arr "+dst.S+")", "nil"), h, sto(h, "(s_arr "+dst.S+")", narr)))
			return Val{S: cnt, T: I}, nil
		}
		qi := "|i?cp|"
		inRange := and(x.cmp(">=", qi, "(s_off "+dst.S+")", I), x.cmp("<", qi, x.arith("+", "(s_off "+dst.S+")", cnt, I), I))
		var srcElem string
		if isString(c.Args[1].Type()) {
			srcElem = fmt.Sprintf("(str_at %s %s)", src.S, x.arith("-", qi, "(s_off "+dst.S+")", I))
		} else {
			srcElem = sel(sel(h, "(s_arr "+src.S+")"), x.arith("+", "(s_off "+src.S+")", x.arith("-", qi, "(s_off "+dst.S+")", I), I))
		}
		x.q.assert(fmt.Sprintf("(forall ((%s %s)) (! (= (select %s %s) (ite %s %s (select %s %s))) :pattern ((select %s %s))))", qi, x.q.intSort(), narr, qi, inRange, srcElem, oldArr, qi, narr, qi))
		x.heapSet(st, hn, hs, ite(eq("(s_arr "+dst.S+")", "nil"), h, sto(h, "(s_arr "+dst.S+")", narr)))
		return Val{S: cnt, T: I}, nil
	case "delete":
		mt := c.Args[0].Type().Underlying().(*types.Map)
		x.mapDelete(st, mt, args[0].S, x.scalar(args[1]))
		return Val{T: resT}, nil
	case "clear":
		if mt, ok := c.Args[0].Type().Underlying().(*types.Map); ok {
			x.mapInit(st, mt, args[0].S)
		}
		return Val{T: resT}, nil
	case "min", "max":
		cur := args[0]
		for _, a := range args[1:] {
			op := "<="
			if b.Name() == "max" {
				op = ">="
			}
			cur = Val{S: ite(x.cmp(op, cur.S, a.S, cur.T), cur.S, a.S), T: cur.T}
		}
		return Val{S: x.q.define(hint, x.q.sortOf(cur.T), cur.S), T: resT}, nil
	case "panic":
		if x.panics {
			x.addObl("panic", "explicit", reach, "false", "reachable panic(...)", in.Pos())
		}
		x.q.assert(not(reach))
		return Val{T: resT}, nil
	case "print", "println", "close":
		return Val{T: resT}, nil
	case "recover":
		return Val{S: "inil", T: resT}, nil
	case "new":
		r := x.freshRef(st, "new", reach)
		return Val{S: r, T: resT}, nil
	case "ssa:wrapnilchk":
		return args[0], nil
	}
	return x.havocVal(hint, resT, reach), nil
}

// appendOp: faithful append — in place when it fits, fresh array otherwise.
func (x *FnExec) appendOp(fr *frame, n *node, in ssa.Instruction, c *ssa.CallCommon, args []Val, reach, hint string) (Val, error) {
	st := n.st
	I := types.Typ[types.Int]
	s, t := args[0], args[1]
	slT := c.Args[0].Type().Underlying().(*types.Slice)
	et := slT.Elem()
	hn, hs := x.elemHeap(et)
	h := x.heapGet(st, hn, hs)
	var tlen string
	tIsStr := isString(c.Args[1].Type())
	if tIsStr {
		tlen = "(strlen " + t.S + ")"
	} else {
		tlen = "(s_len " + t.S + ")"
	}
	newLen := x.q.define(hint+"_len", x.q.intSort(), x.arith("+", "(s_len "+s.S+")", tlen, I))
	fits := x.q.define(hint+"_fits", "Bool", and(x.cmp("<=", newLen, "(s_cap "+s.S+")", I), not(eq("(s_arr "+s.S+")", "nil"))))
	// fresh backing array for the growing case
	al := x.heapGet(st, "$alloc", "(Array Ref Bool)")
	r2 := x.q.freshConst("r_append", "Ref")
	x.q.assert(and(not(eq(r2, "nil")), not(sel(al, r2))))
	x.heapSet(st, "$alloc", "(Array Ref Bool)", ite(fits, al, sto(al, r2, "true")))
	cap2 := x.q.freshConst(hint+"_cap", x.q.intSort())
	x.q.assert(x.cmp(">=", cap2, newLen, I))
	if x.mode == ModeBV {
		x.q.assert(x.cmp("<", cap2, "(_ bv4294967296 64)", I))
	} else {
		// no slice is longer than 2^62 elements (address space); append beyond that does not return
		x.q.assert(implies(reach, x.cmp("<=", newLen, "4611686018427387904", I)))
		x.q.assert(x.cmp("<=", cap2, ite(x.cmp("<=", newLen, "4611686018427387904", I), "4611686018427387904", newLen), I))
		x.trusted["append: the result never exceeds 2^62 elements (address-space bound; larger appends do not return)"] = true
	}
	// resulting array content
	arrSort := fmt.Sprintf("(Array %s %s)", x.q.intSort(), x.q.sortOf(et))
	oldArr := sel(h, "(s_arr "+s.S+")")
	narr := x.q.freshConst(hint+"_arr", arrSort)
	base := x.q.define(hint+"_base", x.q.intSort(), ite(fits, "(s_off "+s.S+")", x.q.intLit(0, nil)))
	// element-wise definition: positions [base, base+len(s)) keep s's elements, [base+len(s), base+newLen) get t's; others keep old (in place) / arbitrary (fresh)
	qi := "|i?ap|"
	srcS := sel(oldArr, x.arith("+", "(s_off "+s.S+")", x.arith("-", qi, base, I), I))
	var srcT string
	tIdx := x.arith("-", x.arith("-", qi, base, I), "(s_len "+s.S+")", I)
	if tIsStr {
		srcT = fmt.Sprintf("(str_at %s %s)", t.S, tIdx)
	} else {
		srcT = sel(sel(h, "(s_arr "+t.S+")"), x.arith("+", "(s_off "+t.S+")", tIdx, I))
	}
	inS := and(x.cmp(">=", qi, base, I), x.cmp("<", qi, x.arith("+", base, "(s_len "+s.S+")", I), I))
	inT := and(x.cmp(">=", qi, x.arith("+", base, "(s_len "+s.S+")", I), I), x.cmp("<", qi, x.arith("+", base, newLen, I), I))
	// small constant-length appends (the common varargs case) are expanded without quantifiers
	if k, ok := x.constLen(c.Args[1]); ok && k <= 8 && !tIsStr {
		cur := ite(fits, oldArr, narr)
		// fresh array: copy of s's elements must be stated with a quantifier only if s may be non-empty
		x.q.assert(implies(not(fits), fmt.Sprintf("(forall ((%s %s)) (! (=> %s (= (select %s %s) %s)) :pattern ((select %s %s))))", qi, x.q.intSort(), inS, narr, qi, srcS, narr, qi)))
		res := cur
		for j := int64(0); j < k; j++ {
			pos := x.arith("+", x.arith("+", base, "(s_len "+s.S+")", I), x.q.intLit(j, nil), I)
			el := sel(sel(h, "(s_arr "+t.S+")"), x.arith("+", "(s_off "+t.S+")", x.q.intLit(j, nil), I))
			res = sto(res, pos, el)
		}
		resArr := x.q.define(hint+"_res", arrSort, res)
		target := x.q.define(hint+"_tgt", "Ref", ite(fits, "(s_arr "+s.S+")", r2))
		x.heapSet(st, hn, hs, sto(h, target, resArr))
		out := fmt.Sprintf("(mkslice %s %s %s %s)", target, base, newLen, ite(fits, "(s_cap "+s.S+")", cap2))
		return Val{S: x.q.define(hint, "Slice", out), T: c.Args[0].Type()}, nil
	}
	if x.mode == ModeBV && !tIsStr {
		const K = 32
		// start from the old array when appending in place, from an arbitrary array otherwise
		start := x.q.freshConst(hint+"_fresharr", arrSort)
		chain := x.q.define(hint+"_ap", arrSort, ite(fits, oldArr, start))
		tArr := sel(h, "(s_arr "+t.S+")")
		for j := 0; j < K; j++ { // elements of s (only matters for the fresh copy)
			pos := x.arith("+", base, x.ilit(int64(j)), I)
			el := sel(oldArr, x.arith("+", "(s_off "+s.S+")", x.ilit(int64(j)), I))
			chain = x.q.define(hint+"_ap", arrSort, sto(chain, pos, ite(x.cmp("<", x.ilit(int64(j)), "(s_len "+s.S+")", I), el, sel(chain, pos))))
		}
		for j := 0; j < K; j++ { // elements of t
			pos := x.arith("+", x.arith("+", base, "(s_len "+s.S+")", I), x.ilit(int64(j)), I)
			el := sel(tArr, x.arith("+", "(s_off "+t.S+")", x.ilit(int64(j)), I))
			chain = x.q.define(hint+"_ap", arrSort, sto(chain, pos, ite(x.cmp("<", x.ilit(int64(j)), tlen, I), el, sel(chain, pos))))
		}
		x.q.assert(implies(and(x.cmp("<=", "(s_len "+s.S+")", x.ilit(K), I), x.cmp("<=", tlen, x.ilit(K), I)), eq(narr, chain)))
		x.q.note("append(s, t...) in bit-vector mode: contents modelled for up to 32+32 elements")
	} else {
		x.q.assert(fmt.Sprintf("(forall ((%s %s)) (! (= (select %s %s) (ite %s %s (ite %s %s (select %s %s)))) :pattern ((select %s %s))))", qi, x.q.intSort(), narr, qi, inS, srcS, inT, srcT, ite(fits, oldArr, narr), qi, narr, qi))
	}
	target := x.q.define(hint+"_tgt", "Ref", ite(fits, "(s_arr "+s.S+")", r2))
	x.heapSet(st, hn, hs, sto(h, target, narr))
	out := fmt.Sprintf("(mkslice %s %s %s %s)", target, base, newLen, ite(fits, "(s_cap "+s.S+")", cap2))
	// appending nothing to nil yields nil
	res := x.q.define(hint, "Slice", ite(and(eq("(s_arr "+s.S+")", "nil"), eq(tlen, x.q.intLit(0, nil))), x.q.nilSlice(), out))
	return Val{S: res, T: c.Args[0].Type()}, nil
}

// constLen: statically known length of a slice value (varargs arrays: slice t[:] of new [k]T)
func (x *FnExec) constLen(v ssa.Value) (int64, bool) {
	if sl, ok := v.(*ssa.Slice); ok && sl.Low == nil && sl.High == nil {
		if pt, ok := sl.X.Type().Underlying().(*types.Pointer); ok {
			if at, ok := pt.Elem().Underlying().(*types.Array); ok {
				return at.Len(), true
			}
		}
	}
	return 0, false
}

var _ = token.NoPos

// hasRefs: does a value of this type contain references (pointers, slices, maps, interfaces, channels, funcs)?
func hasRefs(t types.Type, depth int) bool {
	if depth > 6 {
		return true
	}
	switch u := t.Underlying().(type) {
	case *types.Basic:
		return u.Kind() == types.UnsafePointer
	case *types.Struct:
		for i := 0; i < u.NumFields(); i++ {
			if hasRefs(u.Field(i).Type(), depth+1) {
				return true
			}
		}
		return false
	case *types.Array:
		return hasRefs(u.Elem(), depth+1)
	}
	return true
}

// deepCopyModel: generated `func (in *T) DeepCopy() *T`: nil for nil; otherwise a fresh object whose reference-free
// fields equal the original's and whose reference-carrying fields are arbitrary (fresh copies in reality). Nothing
// that existed before is written.
func (x *FnExec) deepCopyModel(fr *frame, n *node, in ssa.Instruction, callee *ssa.Function, args []Val, reach, hint string, resT types.Type) (Val, bool) {
	if callee.Name() != "DeepCopy" || callee.Signature.Recv() == nil || len(args) != 1 {
		return Val{}, false
	}
	pt, ok := callee.Signature.Recv().Type().Underlying().(*types.Pointer)
	if !ok || callee.Signature.Results().Len() != 1 || !types.Identical(callee.Signature.Results().At(0).Type(), callee.Signature.Recv().Type()) {
		return Val{}, false
	}
	stt, ok := pt.Elem().Underlying().(*types.Struct)
	if !ok {
		return Val{}, false
	}
	st := n.st
	src := x.scalar(args[0])
	r := x.freshRef(st, "deepcopy", reach)
	for i := 0; i < stt.NumFields(); i++ {
		hn, hs, ft := x.fieldHeap(pt.Elem(), i)
		h := x.heapGet(st, hn, hs)
		var v string
		if hasRefs(ft, 0) {
			hv := x.havocVal(hint+"_"+stt.Field(i).Name(), ft, reach)
			v = hv.S
		} else {
			v = sel(h, src)
		}
		x.heapSet(st, hn, hs, sto(h, r, v))
	}
	x.trusted["generated DeepCopy: fresh object; reference-free fields copied, reference-carrying fields arbitrary; no existing object written"] = true
	res := x.q.define(hint, "Ref", ite(eq(src, "nil"), "nil", r))
	return Val{S: res, T: resT}, true
}

// smallLoopFree: a function whose body is small and has no back edge (and does not call itself).
func smallLoopFree(f *ssa.Function) bool {
	if f.Blocks == nil || len(f.Blocks) > 12 {
		return false
	}
	n := 0
	for _, b := range f.Blocks {
		n += len(b.Instrs)
		for _, s := range b.Succs {
			if s.Dominates(b) {
				return false
			}
		}
		for _, in := range b.Instrs {
			switch in := in.(type) {
			case *ssa.Go, *ssa.Defer, *ssa.Select, *ssa.Send, *ssa.Range:
				return false
			case *ssa.UnOp:
				if _, isG := in.X.(*ssa.Global); isG {
					return false // reads package state: keep it summarised
				}
			case ssa.CallInstruction:
				if callee, ok := in.Common().Value.(*ssa.Function); ok && callee == f {
					return false
				}
			}
		}
	}
	return n <= 120
}

// fnWritesOnlyLocal: every write of fn (transitively) to heap h goes through an object allocated inside the function
// that performs the write.
func (x *FnExec) fnWritesOnlyLocal(fn *ssa.Function, h string, seen map[*ssa.Function]bool) bool {
	return x.fnWritesOnlyLocalS(fn, h, seen, false)
}

// strict: used to discharge `preserves` obligations statically — every reference argument handed to a callee that may
// write h must itself be a local allocation, unless the callee's own contract preserves h.
func (x *FnExec) fnWritesOnlyLocalS(fn *ssa.Function, h string, seen map[*ssa.Function]bool, strict bool) bool {
	if seen[fn] {
		return true
	}
	seen[fn] = true
	if fn.Blocks == nil {
		return true
	}
	var rooted func(v ssa.Value, depth int) bool
	rooted = func(v ssa.Value, depth int) bool {
		if depth > 8 {
			dbgLocal(fn, h, 1)
			return false
		}
		switch a := v.(type) {
		case *ssa.Alloc, *ssa.MakeMap, *ssa.MakeSlice:
			return true
		case *ssa.FieldAddr:
			return rooted(a.X, depth+1)
		case *ssa.IndexAddr:
			return rooted(a.X, depth+1)
		case *ssa.Slice:
			return rooted(a.X, depth+1)
		case *ssa.MakeInterface:
			return rooted(a.X, depth+1)
		}
		dbgLocal(fn, h, 2)
		return false
	}
	for _, b := range fn.Blocks {
		for _, in := range b.Instrs {
			ws := map[string]bool{}
			switch in := in.(type) {
			case *ssa.Store:
				x.addrHeapsOfPointerType(in.Addr.Type(), in.Addr, ws)
				if ws[h] && !rooted(in.Addr, 0) {
					dbgLocal(fn, h, 3)
					return false
				}
			case *ssa.MapUpdate:
				x.writeSetInstrs(fn, []ssa.Instruction{in}, ws, map[*ssa.Function]bool{})
				if ws[h] && !rooted(in.Map, 0) {
					dbgLocal(fn, h, 4)
					return false
				}
			case *ssa.MakeClosure:
				if !x.fnWritesOnlyLocalS(in.Fn.(*ssa.Function), h, seen, strict) {
					dbgLocal(fn, h, 5)
					return false
				}
			case ssa.CallInstruction:
				c := in.Common()
				x.writeSetCall(fn, in, ws, map[*ssa.Function]bool{})
				if !ws[h] {
					continue
				}
				// closures passed as arguments were already examined at their MakeClosure; what remains is the callee itself
				if f, isF := c.Value.(*ssa.Function); isF && x.eng.libModel(f) != nil {
					onlyClosures := true
					ws2 := map[string]bool{}
					if lm := x.eng.libModel(f); lm.writes != nil {
						lm.writes(x, c, ws2)
					}
					for _, a := range c.Args {
						if mc, isMC := a.(*ssa.MakeClosure); isMC {
							cw := map[string]bool{}
							x.writeSetFn(mc.Fn.(*ssa.Function), cw, map[*ssa.Function]bool{})
							for k := range cw {
								delete(ws2, k)
							}
						}
					}
					if ws2[h] {
						onlyClosures = false
					}
					if onlyClosures {
						continue
					}
				}
				if c.IsInvoke() {
					// modelled interface calls (client.Get(obj), ...): the written object is an argument
					okAll := false
					for _, a := range c.Args {
						if mi, isMI := a.(*ssa.MakeInterface); isMI && rooted(mi.X, 0) {
							okAll = true
						}
					}
					if strict {
						okAll = allRefArgsRooted(c.Args, rooted)
					}
					if !okAll {
						dbgLocal(fn, h, 6)
						return false
					}
					continue
				}
				switch callee := c.Value.(type) {
				case *ssa.Builtin:
					if callee.Name() == "append" || callee.Name() == "copy" {
						if !rootedAtLocal(c.Args[0], 0) {
							dbgLocal(fn, h, 7)
							return false
						}
						continue
					}
					if !rooted(c.Args[0], 0) {
						dbgLocal(fn, h, 8)
						return false
					}
				case *ssa.Function:
					if sp0 := x.eng.specFor(callee); x.eng.isRepoFunc(callee) && (sp0 == nil || sp0.Inline) && x.eng.libModel(callee) == nil {
						x.eng.ensureBuilt(callee)
						if !x.fnWritesOnlyLocalS(callee, h, seen, strict) {
							dbgLocal(fn, h, 9)
							return false
						}
						continue
					}
					// library model / contracted callee writing h: accept only when the target argument is local
					okAll := false
					for _, a := range c.Args {
						if rooted(a, 0) {
							okAll = true
						}
					}
					if strict {
						okAll = allRefArgsRooted(c.Args, rooted)
						if sp := x.eng.specFor(callee); sp != nil && !okAll {
							for _, ph := range x.preservedHeaps(sp, callee) {
								if ph == h {
									okAll = true
								}
							}
						}
					}
					if !okAll {
						dbgLocal(fn, h, 10)
						return false
					}
				default:
					dbgLocal(fn, h, 11)
					return false
				}
			}
		}
	}
	return true
}

func allRefArgsRooted(args []ssa.Value, rooted func(ssa.Value, int) bool) bool {
	for _, a := range args {
		switch a.Type().Underlying().(type) {
		case *types.Pointer, *types.Slice, *types.Map, *types.Interface, *types.Signature, *types.Chan:
			if c, ok := a.(*ssa.Const); ok && c.IsNil() {
				continue
			}
			if !rooted(a, 0) {
				return false
			}
		case *types.Struct, *types.Array:
			return false // may carry references: not analysed
		}
	}
	return true
}

func dbgLocal(fn *ssa.Function, h string, site int) {
	if os.Getenv("TVC_DEBUG_LOCAL") != "" {
		fmt.Fprintf(os.Stderr, "writes-only-local fails: %s heap %s at check %d\n", fn.String(), h, site)
	}
}

// havocInteriorArgs: an argument that is the address of a field / element / local (an interior pointer) is seen by a
// callee that is not executed in place as a plain pointer; when that callee may write through pointers of that type, the
// addressed location is given an arbitrary value afterwards.
func (x *FnExec) havocInteriorArgs(st *State, args []Val, ws map[string]bool, reach, hint string) {
	for i, a := range args {
		if a.Addr == nil || a.Addr.T == nil {
			continue
		}
		ad := a.Addr
		if ad.Root == rootField && ad.Idx == "whole" && len(ad.Path) == 0 {
			continue // a whole object: its fields live in the field heaps, which the write set covers by name
		}
		may := false
		if stt, ok := ad.T.Underlying().(*types.Struct); ok {
			for f := 0; f < stt.NumFields(); f++ {
				hn, _, _ := x.fieldHeap(ad.T, f)
				if ws[hn] {
					may = true
				}
			}
		} else if at, ok := ad.T.Underlying().(*types.Array); ok {
			hn, _ := x.elemHeap(at.Elem())
			may = ws[hn]
		} else {
			hn, _ := x.boxHeap(ad.T)
			may = ws[hn]
		}
		if !may {
			continue
		}
		nv := x.havocVal(fmt.Sprintf("%s_argloc%d", hint, i), ad.T, reach)
		old := x.loadAddr(st, ad)
		x.storeAddr(st, ad, ite(reach, nv.S, old))
	}
}
