package main

import (
	"fmt"
	"go/types"

	"golang.org/x/tools/go/ssa"
)

// Schematic models for samber/lo helpers and sort: the function argument is NOT executed; the result is
// characterised by what every such helper guarantees structurally (subset / same length / permutation).

// subsetSlice: fresh slice r with len(r) <= len(in) and every element of r an element of in.
func (x *FnExec) subsetSlice(st *State, reach, hint string, in Val, sliceT types.Type) Val {
	et := sliceT.Underlying().(*types.Slice).Elem()
	hn, hs := x.elemHeap(et)
	r := x.freshRef(st, hint, reach)
	arrSort := fmt.Sprintf("(Array %s %s)", x.q.intSort(), x.q.sortOf(et))
	a := x.q.freshConst(hint+"_arr", arrSort)
	ln := x.q.freshConst(hint+"_len", x.q.intSort())
	h := x.heapGet(st, hn, hs)
	inArr := sel(h, "(s_arr "+in.S+")")
	sk := x.q.freshConst(hint+"_src", fmt.Sprintf("(Array %s %s)", x.q.intSort(), x.q.intSort()))
	x.q.assert(and(x.cmp(">=", ln, x.ilit(0), tInt), x.cmp("<=", ln, "(s_len "+in.S+")", tInt)))
	j := "|j?sub|"
	x.q.assert(fmt.Sprintf("(forall ((%s %s)) (! (=> (and %s %s) (and %s %s (= (select %s %s) (select %s %s)))) :pattern ((select %s %s))))", j, x.q.intSort(),
		x.cmp(">=", j, x.ilit(0), tInt), x.cmp("<", j, ln, tInt),
		x.cmp(">=", sel(sk, j), x.ilit(0), tInt), x.cmp("<", sel(sk, j), "(s_len "+in.S+")", tInt),
		a, j, inArr, x.arith("+", "(s_off "+in.S+")", sel(sk, j), tInt), a, j))
	x.heapSet(st, hn, hs, sto(h, r, a))
	res := x.q.define(hint, "Slice", fmt.Sprintf("(mkslice %s %s %s %s)", r, x.ilit(0), ln, ln))
	return Val{S: res, T: sliceT}
}

func init() {
	// lo.Filter(collection, predicate) -> subset, order preserved (order not modelled)
	regLib("github.com/samber/lo.Filter", func(x *FnExec, fr *frame, n *node, in ssa.Instruction, c *ssa.CallCommon, args []Val, reach, hint string) (Val, error) {
		x.trusted["lo.Filter: result is a fresh slice whose elements are elements of the input (predicate not executed)"] = true
		return x.subsetSlice(n.st, reach, hint, args[0], resultType(in, c)), nil
	})
	regLib("github.com/samber/lo.Uniq", func(x *FnExec, fr *frame, n *node, in ssa.Instruction, c *ssa.CallCommon, args []Val, reach, hint string) (Val, error) {
		return x.subsetSlice(n.st, reach, hint, args[0], resultType(in, c)), nil
	})
	// lo.Map(collection, f) -> fresh slice of the same length, arbitrary elements
	regLib("github.com/samber/lo.Map", func(x *FnExec, fr *frame, n *node, in ssa.Instruction, c *ssa.CallCommon, args []Val, reach, hint string) (Val, error) {
		st := n.st
		rt := resultType(in, c)
		r := x.freshRef(st, hint, reach)
		res := x.q.define(hint, "Slice", fmt.Sprintf("(mkslice %s %s (s_len %s) (s_len %s))", r, x.ilit(0), args[0].S, args[0].S))
		et := rt.Underlying().(*types.Slice).Elem()
		hn, hs := x.elemHeap(et)
		a := x.q.freshConst(hint+"_arr", fmt.Sprintf("(Array %s %s)", x.q.intSort(), x.q.sortOf(et)))
		x.heapSet(st, hn, hs, sto(x.heapGet(st, hn, hs), r, a))
		x.trusted["lo.Map: fresh slice of the same length, element values arbitrary (mapper not executed)"] = true
		return Val{S: res, T: rt}, nil
	})
	// lo.ForEach(collection, f): the callback is not executed here; its write set is havocked by the caller rule
	regLib("github.com/samber/lo.ForEach", func(x *FnExec, fr *frame, n *node, in ssa.Instruction, c *ssa.CallCommon, args []Val, reach, hint string) (Val, error) {
		// havoc what the callback may write (it runs 0..n times)
		if len(c.Args) > 1 {
			if mc, ok := c.Args[1].(*ssa.MakeClosure); ok {
				ws := map[string]bool{}
				x.writeSetFn(mc.Fn.(*ssa.Function), ws, map[*ssa.Function]bool{})
				for h := range ws {
					if _, ok := x.q.heaps[h]; ok {
						x.heapHavoc(n.st, h)
					}
				}
			}
		}
		x.trusted["lo.ForEach: callback effects summarised by its syntactic write set (havocked)"] = true
		return Val{T: resultType(in, c)}, nil
	}).writes = func(x *FnExec, c *ssa.CallCommon, out map[string]bool) {
		if len(c.Args) > 1 {
			if mc, ok := c.Args[1].(*ssa.MakeClosure); ok {
				x.writeSetFn(mc.Fn.(*ssa.Function), out, map[*ssa.Function]bool{})
			}
		}
	}
	// sort.Slice / sort.SliceStable / sort.Sort on a slice: in-place permutation
	permute := func(x *FnExec, fr *frame, n *node, in ssa.Instruction, c *ssa.CallCommon, args []Val, reach, hint string) (Val, error) {
		st := n.st
		// args[0] is an interface holding the slice; recover the slice from the MakeInterface operand
		mi, ok := c.Args[0].(*ssa.MakeInterface)
		if !ok {
			return Val{T: resultType(in, c)}, nil
		}
		slT, ok := mi.X.Type().Underlying().(*types.Slice)
		if !ok {
			return Val{T: resultType(in, c)}, nil
		}
		sv := x.value(fr, n.env, mi.X)
		hn, hs := x.elemHeap(slT.Elem())
		h := x.heapGet(st, hn, hs)
		oldArr := sel(h, "(s_arr "+sv.S+")")
		arrSort := fmt.Sprintf("(Array %s %s)", x.q.intSort(), x.q.sortOf(slT.Elem()))
		a := x.q.freshConst(hint+"_sorted", arrSort)
		sk := x.q.freshConst(hint+"_perm", fmt.Sprintf("(Array %s %s)", x.q.intSort(), x.q.intSort()))
		j := "|j?perm|"
		off, ln := "(s_off "+sv.S+")", "(s_len "+sv.S+")"
		inR := and(x.cmp(">=", j, x.ilit(0), tInt), x.cmp("<", j, ln, tInt))
		// inside the slice window: a permutation (relative indices, same shape as user quantifiers over s[i]); outside: unchanged
		x.q.assert(fmt.Sprintf("(forall ((%s %s)) (! (=> %s (and %s %s (= (select %s %s) (select %s %s)))) :pattern ((select %s %s))))", j, x.q.intSort(), inR,
			x.cmp(">=", sel(sk, j), x.ilit(0), tInt), x.cmp("<", sel(sk, j), ln, tInt),
			a, x.arith("+", off, j, tInt), oldArr, x.arith("+", off, sel(sk, j), tInt), a, x.arith("+", off, j, tInt)))
		k := "|k?perm|"
		outR := or(x.cmp("<", k, off, tInt), x.cmp(">=", k, x.arith("+", off, ln, tInt), tInt))
		x.q.assert(fmt.Sprintf("(forall ((%s %s)) (! (=> %s (= (select %s %s) (select %s %s))) :pattern ((select %s %s))))", k, x.q.intSort(), outR, a, k, oldArr, k, a, k))
		x.heapSet(st, hn, hs, sto(h, "(s_arr "+sv.S+")", a))
		x.trusted["sort.Slice: the slice is permuted in place (every new element is an old element; ordering not modelled)"] = true
		return Val{T: resultType(in, c)}, nil
	}
	wr := func(x *FnExec, c *ssa.CallCommon, out map[string]bool) {
		if mi, ok := c.Args[0].(*ssa.MakeInterface); ok {
			if slT, ok := mi.X.Type().Underlying().(*types.Slice); ok {
				hn, hs := x.elemHeap(slT.Elem())
				x.q.heapDecl(hn, hs)
				out[hn] = true
			}
		}
	}
	regLib("sort.Slice", permute).writes = wr
	regLib("sort.SliceStable", permute).writes = wr
}
