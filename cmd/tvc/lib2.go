package main

import (
	"fmt"
	"sort"
	"strings"
	"go/types"

	"golang.org/x/tools/go/ssa"
)

// Schematic models for samber/lo helpers and sort: the function argument is NOT executed; the result is
// characterised by what every such helper guarantees structurally (subset / same length / permutation).

// subsetSlice: fresh slice r with len(r) <= len(in) and every element of r an element of in.
func (x *FnExec) subsetSlice(st *State, reach, hint string, in Val, sliceT types.Type) Val {
	et := sliceT.Underlying().(*types.Slice).Elem()
	hn, hs := x.elemHeap(et)
	r := x.freshRef(st, hint, reach)
	arrSort := fmt.Sprintf("(Array %s %s)", x.q.intSort(), x.q.sortOf(et))
	a := x.q.freshConst(hint+"_arr", arrSort)
	ln := x.q.freshConst(hint+"_len", x.q.intSort())
	h := x.heapGet(st, hn, hs)
	inArr := sel(h, "(s_arr "+in.S+")")
	sk := x.q.freshConst(hint+"_src", fmt.Sprintf("(Array %s %s)", x.q.intSort(), x.q.intSort()))
	x.q.assert(and(x.cmp(">=", ln, x.ilit(0), tInt), x.cmp("<=", ln, "(s_len "+in.S+")", tInt)))
	j := "|j?sub|"
	x.q.assert(fmt.Sprintf("(forall ((%s %s)) (! (=> (and %s %s) (and %s %s (= (select %s %s) (select %s %s)))) :pattern ((select %s %s))))", j, x.q.intSort(),
		x.cmp(">=", j, x.ilit(0), tInt), x.cmp("<", j, ln, tInt),
		x.cmp(">=", sel(sk, j), x.ilit(0), tInt), x.cmp("<", sel(sk, j), "(s_len "+in.S+")", tInt),
		a, j, inArr, x.arith("+", "(s_off "+in.S+")", sel(sk, j), tInt), a, j))
	x.heapSet(st, hn, hs, sto(h, r, a))
	res := x.q.define(hint, "Slice", fmt.Sprintf("(mkslice %s %s %s %s)", r, x.ilit(0), ln, ln))
	return Val{S: res, T: sliceT}
}

func init() {
	// lo.Filter(collection, predicate) -> subset, order preserved (order not modelled)
	regLib("github.com/samber/lo.Filter", func(x *FnExec, fr *frame, n *node, in ssa.Instruction, c *ssa.CallCommon, args []Val, reach, hint string) (Val, error) {
		x.trusted["lo.Filter: result is a fresh slice whose elements are elements of the input (predicate not executed)"] = true
		return x.subsetSlice(n.st, reach, hint, args[0], resultType(in, c)), nil
	})
	// lo.Subset(collection, offset, length) -> a window of the collection (modelled as a fresh slice of its elements)
	regLib("github.com/samber/lo.Subset", func(x *FnExec, fr *frame, n *node, in ssa.Instruction, c *ssa.CallCommon, args []Val, reach, hint string) (Val, error) {
		x.trusted["lo.Subset: result holds only elements of the input, at most as many (window position not modelled)"] = true
		return x.subsetSlice(n.st, reach, hint, args[0], resultType(in, c)), nil
	})
	regLib("github.com/samber/lo.Uniq", func(x *FnExec, fr *frame, n *node, in ssa.Instruction, c *ssa.CallCommon, args []Val, reach, hint string) (Val, error) {
		return x.subsetSlice(n.st, reach, hint, args[0], resultType(in, c)), nil
	})
	// lo.Map(collection, f) -> fresh slice of the same length, arbitrary elements
	regLib("github.com/samber/lo.Map", func(x *FnExec, fr *frame, n *node, in ssa.Instruction, c *ssa.CallCommon, args []Val, reach, hint string) (Val, error) {
		st := n.st
		rt := resultType(in, c)
		r := x.freshRef(st, hint, reach)
		res := x.q.define(hint, "Slice", fmt.Sprintf("(mkslice %s %s (s_len %s) (s_len %s))", r, x.ilit(0), args[0].S, args[0].S))
		et := rt.Underlying().(*types.Slice).Elem()
		hn, hs := x.elemHeap(et)
		a := x.q.freshConst(hint+"_arr", fmt.Sprintf("(Array %s %s)", x.q.intSort(), x.q.sortOf(et)))
		x.heapSet(st, hn, hs, sto(x.heapGet(st, hn, hs), r, a))
		x.trusted["lo.Map: fresh slice of the same length, element values arbitrary (mapper not executed)"] = true
		return Val{S: res, T: rt}, nil
	})
	// lo.ForEach(collection, f): the callback is not executed here; its write set is havocked by the caller rule
	regLib("github.com/samber/lo.ForEach", func(x *FnExec, fr *frame, n *node, in ssa.Instruction, c *ssa.CallCommon, args []Val, reach, hint string) (Val, error) {
		// havoc what the callback may write (it runs 0..n times)
		if len(c.Args) > 1 {
			if mc, ok := c.Args[1].(*ssa.MakeClosure); ok {
				ws := map[string]bool{}
				x.writeSetFn(mc.Fn.(*ssa.Function), ws, map[*ssa.Function]bool{})
				for h := range ws {
					if _, ok := x.q.heaps[h]; ok {
						x.heapHavoc(n.st, h)
					}
				}
			}
		}
		x.trusted["lo.ForEach: callback effects summarised by its syntactic write set (havocked)"] = true
		return Val{T: resultType(in, c)}, nil
	}).writes = func(x *FnExec, c *ssa.CallCommon, out map[string]bool) {
		if len(c.Args) > 1 {
			if mc, ok := c.Args[1].(*ssa.MakeClosure); ok {
				x.writeSetFn(mc.Fn.(*ssa.Function), out, map[*ssa.Function]bool{})
			}
		}
	}
	// sort.Slice / sort.SliceStable / sort.Sort on a slice: in-place permutation
	permute := func(x *FnExec, fr *frame, n *node, in ssa.Instruction, c *ssa.CallCommon, args []Val, reach, hint string) (Val, error) {
		st := n.st
		// args[0] is an interface holding the slice; recover the slice from the MakeInterface operand
		mi, ok := c.Args[0].(*ssa.MakeInterface)
		if !ok {
			return Val{T: resultType(in, c)}, nil
		}
		slT, ok := mi.X.Type().Underlying().(*types.Slice)
		if !ok {
			return Val{T: resultType(in, c)}, nil
		}
		sv := x.value(fr, n.env, mi.X)
		hn, hs := x.elemHeap(slT.Elem())
		h := x.heapGet(st, hn, hs)
		oldArr := sel(h, "(s_arr "+sv.S+")")
		arrSort := fmt.Sprintf("(Array %s %s)", x.q.intSort(), x.q.sortOf(slT.Elem()))
		a := x.q.freshConst(hint+"_sorted", arrSort)
		sk := x.q.freshConst(hint+"_perm", fmt.Sprintf("(Array %s %s)", x.q.intSort(), x.q.intSort()))
		j := "|j?perm|"
		off, ln := "(s_off "+sv.S+")", "(s_len "+sv.S+")"
		inR := and(x.cmp(">=", j, x.ilit(0), tInt), x.cmp("<", j, ln, tInt))
		// inside the slice window: a permutation (relative indices, same shape as user quantifiers over s[i]); outside: unchanged
		x.q.assert(fmt.Sprintf("(forall ((%s %s)) (! (=> %s (and %s %s (= (select %s %s) (select %s %s)))) :pattern ((select %s %s))))", j, x.q.intSort(), inR,
			x.cmp(">=", sel(sk, j), x.ilit(0), tInt), x.cmp("<", sel(sk, j), ln, tInt),
			a, x.arith("+", off, j, tInt), oldArr, x.arith("+", off, sel(sk, j), tInt), a, x.arith("+", off, j, tInt)))
		k := "|k?perm|"
		outR := or(x.cmp("<", k, off, tInt), x.cmp(">=", k, x.arith("+", off, ln, tInt), tInt))
		x.q.assert(fmt.Sprintf("(forall ((%s %s)) (! (=> %s (= (select %s %s) (select %s %s))) :pattern ((select %s %s))))", k, x.q.intSort(), outR, a, k, oldArr, k, a, k))
		x.heapSet(st, hn, hs, sto(h, "(s_arr "+sv.S+")", a))
		x.trusted["sort.Slice: the slice is permuted in place (every new element is an old element; ordering not modelled)"] = true
		return Val{T: resultType(in, c)}, nil
	}
	wr := func(x *FnExec, c *ssa.CallCommon, out map[string]bool) {
		if mi, ok := c.Args[0].(*ssa.MakeInterface); ok {
			if slT, ok := mi.X.Type().Underlying().(*types.Slice); ok {
				hn, hs := x.elemHeap(slT.Elem())
				x.q.heapDecl(hn, hs)
				out[hn] = true
			}
		}
	}
	regLib("sort.Slice", permute).writes = wr
	regLib("sort.SliceStable", permute).writes = wr
}

// ---- JSON: contents of byte slices as abstract blobs; decoding havocs the target object ----

func (x *FnExec) blobOf(st *State, s string) string {
	x.q.declareSortOnce("Blob")
	arrSort := fmt.Sprintf("(Array %s %s)", x.q.intSort(), x.q.sortOf(tByte))
	x.q.declareFun("lib_content", []string{arrSort, x.q.intSort(), x.q.intSort()}, "Blob")
	return fmt.Sprintf("(lib_content %s (s_off %s) (s_len %s))", sel(x.byteHeap(st), "(s_arr "+s+")"), s, s)
}

// havocPointee: the object a pointer refers to gets arbitrary type-valid content (one level).
func (x *FnExec) havocPointee(st *State, reach, hint string, p Val) {
	a := x.pointerAddr(p)
	if a == nil {
		return
	}
	if a.Root == rootField && a.Idx == "whole" && len(a.Path) == 0 {
		stt := a.RootT.Underlying().(*types.Struct)
		for i := 0; i < stt.NumFields(); i++ {
			hn, hs, ft := x.fieldHeap(a.RootT, i)
			v := x.havocVal(hint+"_"+stt.Field(i).Name(), ft, reach)
			x.assumeAllocT(st, reach, v.S, ft, 1)
			x.heapSet(st, hn, hs, sto(x.heapGet(st, hn, hs), a.Base, v.S))
		}
		return
	}
	v := x.havocVal(hint+"_val", a.T, reach)
	x.assumeAllocT(st, reach, v.S, a.T, 1)
	x.storeAddr(st, a, v.S)
}

func init() {
	unmarshal := func(x *FnExec, fr *frame, n *node, in ssa.Instruction, c *ssa.CallCommon, args []Val, reach, hint string) (Val, error) {
		res := x.havocVal(hint, resultType(in, c), reach)
		if mi, ok := c.Args[1].(*ssa.MakeInterface); ok {
			target := x.value(fr, n.env, mi.X)
			if _, isPtr := mi.X.Type().Underlying().(*types.Pointer); isPtr {
				x.havocPointee(n.st, reach, hint, target)
				// remember what the object was decoded from (only meaningful when err == nil)
				x.q.declareSortOnce("Blob")
				hn, hs := "|JsonOf|", "(Array Ref Blob)"
				h := x.heapGet(n.st, hn, hs)
				x.heapSet(n.st, hn, hs, sto(h, x.scalar(target), x.blobOf(n.st, args[0].S)))
			}
		}
		x.trusted["json/yaml Unmarshal: target object gets arbitrary type-valid content; error arbitrary; nothing else written"] = true
		return res, nil
	}
	wr := func(x *FnExec, c *ssa.CallCommon, out map[string]bool) {
		if mi, ok := c.Args[1].(*ssa.MakeInterface); ok {
			x.addrHeapsOfPointerType(mi.X.Type(), mi.X, out)
			if pt, ok := mi.X.Type().Underlying().(*types.Pointer); ok {
				if stt, ok := pt.Elem().Underlying().(*types.Struct); ok {
					for i := 0; i < stt.NumFields(); i++ {
						hn, hs, _ := x.fieldHeap(pt.Elem(), i)
						x.q.heapDecl(hn, hs)
						out[hn] = true
					}
				}
			}
		}
	}
	for _, nm := range []string{"encoding/json.Unmarshal", "k8s.io/apimachinery/pkg/util/json.Unmarshal", "gopkg.in/yaml.v2.Unmarshal", "sigs.k8s.io/yaml.Unmarshal", "gopkg.in/yaml.v3.Unmarshal", "k8s.io/apimachinery/pkg/util/yaml.Unmarshal"} {
		regLib(nm, unmarshal).writes = wr
	}
	regLib("github.com/evanphx/json-patch.MergePatch", func(x *FnExec, fr *frame, n *node, in ssa.Instruction, c *ssa.CallCommon, args []Val, reach, hint string) (Val, error) {
		res := x.havocVal(hint, resultType(in, c), reach)
		x.q.declareSortOnce("Blob")
		x.q.declareFun("pf_mergePatch", []string{"Blob", "Blob"}, "Blob")
		// the returned document is a fresh slice holding mp(original, patch)
		x.q.assert(implies(eq(res.Tuple[1].S, "inil"), eq(x.blobOf(n.st, res.Tuple[0].S), fmt.Sprintf("(pf_mergePatch %s %s)", x.blobOf(n.st, args[0].S), x.blobOf(n.st, args[1].S)))))
		x.trusted["jsonpatch.MergePatch(original, patch) returns the RFC 7396 merge mp(original, patch) (assumed contract on the dependency)"] = true
		return res, nil
	})
}

func init() {
	// spec-level access to blobs
	specLibFuncs["content"] = func(x *FnExec, c *evalCtx, args []Val) (Val, error) {
		return Val{S: x.blobOf(c.state(), args[0].S), Sort: "Blob"}, nil
	}
	specLibFuncs["strBlob"] = func(x *FnExec, c *evalCtx, args []Val) (Val, error) {
		x.q.declareSortOnce("Blob")
		x.q.declareFun("lib_strblob", []string{"Str"}, "Blob")
		return Val{S: fmt.Sprintf("(lib_strblob %s)", args[0].S), Sort: "Blob"}, nil
	}
	specLibFuncs["mergePatch"] = func(x *FnExec, c *evalCtx, args []Val) (Val, error) {
		x.q.declareSortOnce("Blob")
		x.q.declareFun("pf_mergePatch", []string{"Blob", "Blob"}, "Blob")
		return Val{S: fmt.Sprintf("(pf_mergePatch %s %s)", args[0].S, args[1].S), Sort: "Blob"}, nil
	}
}

// capturedSliceStores: if every store in the closure writes an element of a slice held in one of its free variables,
// return those free-variable indexes; ok=false otherwise.
func capturedSliceStores(fn *ssa.Function) (idx []int, ok bool) {
	seen := map[int]bool{}
	for _, b := range fn.Blocks {
		for _, in := range b.Instrs {
			switch in := in.(type) {
			case *ssa.Store:
				ia, isIA := in.Addr.(*ssa.IndexAddr)
				if !isIA {
					return nil, false
				}
				ld, isLd := ia.X.(*ssa.UnOp)
				if !isLd {
					return nil, false
				}
				fv, isFV := ld.X.(*ssa.FreeVar)
				if !isFV {
					return nil, false
				}
				for i, f := range fn.FreeVars {
					if f == fv && !seen[i] {
						seen[i] = true
						idx = append(idx, i)
					}
				}
			case ssa.CallInstruction:
				if _, isB := in.Common().Value.(*ssa.Builtin); !isB {
					return nil, false
				}
			case *ssa.MapUpdate, *ssa.Go, *ssa.Defer, *ssa.Send:
				return nil, false
			}
		}
	}
	return idx, true
}

func init() {
	// rand.Shuffle(n, swap): swap is called an arbitrary number of times. If swap only writes elements of slices it
	// captured, exactly those backing arrays receive arbitrary content; otherwise its whole write set is havocked.
	regLib("math/rand.Shuffle", func(x *FnExec, fr *frame, n *node, in ssa.Instruction, c *ssa.CallCommon, args []Val, reach, hint string) (Val, error) {
		st := n.st
		cl := args[1]
		if cl.Fn != nil {
			if idx, ok := capturedSliceStores(cl.Fn); ok {
				for _, i := range idx {
					cell := cl.Binds[i] // pointer to the captured slice variable
					a := x.pointerAddr(cell)
					if a == nil {
						continue
					}
					sv := x.loadAddr(st, a)
					slT, isSl := a.T.Underlying().(*types.Slice)
					if !isSl {
						continue
					}
					hn, hs := x.elemHeap(slT.Elem())
					h := x.heapGet(st, hn, hs)
					na := x.q.freshConst(hint+"_shuffled", fmt.Sprintf("(Array %s %s)", x.q.intSort(), x.q.sortOf(slT.Elem())))
					x.heapSet(st, hn, hs, sto(h, "(s_arr "+sv+")", na))
				}
				x.trusted["rand.Shuffle: the swap callback only writes elements of slices it captured; those backing arrays get arbitrary content"] = true
				return Val{T: resultType(in, c)}, nil
			}
			ws := map[string]bool{}
			x.writeSetFn(cl.Fn, ws, map[*ssa.Function]bool{})
			for h := range ws {
				if _, ok := x.q.heaps[h]; ok {
					x.heapHavoc(st, h)
				}
			}
		}
		return Val{T: resultType(in, c)}, nil
	}).writes = func(x *FnExec, c *ssa.CallCommon, out map[string]bool) {
		if mc, ok := c.Args[1].(*ssa.MakeClosure); ok {
			x.writeSetFn(mc.Fn.(*ssa.Function), out, map[*ssa.Function]bool{})
		}
	}
	// sort.Sort(x) where x is a named slice type: in-place permutation of that slice (Less/Swap not executed)
	regLib("sort.Sort", libModels["sort.Slice"].apply).writes = libModels["sort.Slice"].writes
	regLib("sort.Stable", libModels["sort.Slice"].apply).writes = libModels["sort.Slice"].writes
}

// ---- k8s.io/utils/lru.Cache as a ghost map (per cache object): entries appear only through Add, vanish through
// Remove or eviction at Add of another key; Get is a plain lookup. The cache's own mutex is trusted. ----

func (x *FnExec) lruHeaps(st *State) (dom, val string) {
	return x.heapGet(st, "|LruDom|", "(Array Ref (Array Iface Bool))"), x.heapGet(st, "|LruVal|", "(Array Ref (Array Iface Iface))")
}

func init() {
	lruName := "(*k8s.io/utils/lru.Cache)."
	regLib(lruName+"Get", func(x *FnExec, fr *frame, n *node, in ssa.Instruction, c *ssa.CallCommon, args []Val, reach, hint string) (Val, error) {
		dom, val := x.lruHeaps(n.st)
		ok := x.q.define(hint+"_ok", "Bool", sel(sel(dom, args[0].S), args[1].S))
		v := x.q.define(hint+"_v", "Iface", ite(ok, sel(sel(val, args[0].S), args[1].S), "inil"))
		x.trusted["lru.Cache: ghost map model (Get = lookup; Add inserts and may evict other keys; Remove deletes)"] = true
		return Val{T: resultType(in, c), Tuple: []Val{{S: v, T: types.Universe.Lookup("any").Type()}, {S: ok, T: types.Typ[types.Bool]}}}, nil
	})
	regLib(lruName+"Add", func(x *FnExec, fr *frame, n *node, in ssa.Instruction, c *ssa.CallCommon, args []Val, reach, hint string) (Val, error) {
		st := n.st
		dom, val := x.lruHeaps(st)
		cref, k, v := args[0].S, args[1].S, args[2].S
		// other keys may be evicted: new domain is a subset of the old one plus k
		nd := x.q.freshConst(hint+"_dom", "(Array Iface Bool)")
		q := "|k?lru|"
		x.q.assert(fmt.Sprintf("(forall ((%s Iface)) (! (=> (select %s %s) (or (= %s %s) (select (select %s %s) %s))) :pattern ((select %s %s))))", q, nd, q, q, k, dom, cref, q, nd, q))
		x.q.assert(sel(nd, k))
		x.heapSet(st, "|LruDom|", "(Array Ref (Array Iface Bool))", sto(dom, cref, nd))
		x.heapSet(st, "|LruVal|", "(Array Ref (Array Iface Iface))", sto(val, cref, sto(sel(val, cref), k, v)))
		return Val{T: resultType(in, c)}, nil
	}).writes = func(x *FnExec, c *ssa.CallCommon, out map[string]bool) {
		x.q.heapDecl("|LruDom|", "(Array Ref (Array Iface Bool))")
		x.q.heapDecl("|LruVal|", "(Array Ref (Array Iface Iface))")
		out["|LruDom|"], out["|LruVal|"] = true, true
	}
	regLib(lruName+"Remove", func(x *FnExec, fr *frame, n *node, in ssa.Instruction, c *ssa.CallCommon, args []Val, reach, hint string) (Val, error) {
		st := n.st
		dom, _ := x.lruHeaps(st)
		x.heapSet(st, "|LruDom|", "(Array Ref (Array Iface Bool))", sto(dom, args[0].S, sto(sel(dom, args[0].S), args[1].S, "false")))
		return Val{T: resultType(in, c)}, nil
	}).writes = func(x *FnExec, c *ssa.CallCommon, out map[string]bool) {
		x.q.heapDecl("|LruDom|", "(Array Ref (Array Iface Bool))")
		out["|LruDom|"] = true
	}
	// spec-level views: lruHas(cache, key string), lruStrs(cache, key string) []string, lruIsStrs(cache, key string)
	boxStr := func(x *FnExec, s string) string {
		box, unbox := x.q.boxFn(types.Typ[types.String])
		b := fmt.Sprintf("(%s %s)", box, s)
		x.q.assert(and(eq(fmt.Sprintf("(%s %s)", unbox, b), s), eq("(itag "+b+")", fmt.Sprint(x.q.typeID(types.Typ[types.String]))), not(eq(b, "inil"))))
		return b
	}
	strSliceT := types.NewSlice(types.Typ[types.String])
	specLibFuncs["lruHas"] = func(x *FnExec, c *evalCtx, args []Val) (Val, error) {
		dom, _ := x.lruHeaps(c.state())
		return Val{S: sel(sel(dom, args[0].S), boxStr(x, args[1].S)), T: types.Typ[types.Bool]}, nil
	}
	specLibFuncs["lruStrs"] = func(x *FnExec, c *evalCtx, args []Val) (Val, error) {
		_, val := x.lruHeaps(c.state())
		_, unbox := x.q.boxFn(strSliceT)
		return Val{S: fmt.Sprintf("(%s %s)", unbox, sel(sel(val, args[0].S), boxStr(x, args[1].S))), T: strSliceT}, nil
	}
	specLibFuncs["lruIsStrs"] = func(x *FnExec, c *evalCtx, args []Val) (Val, error) {
		_, val := x.lruHeaps(c.state())
		v := sel(sel(val, args[0].S), boxStr(x, args[1].S))
		return Val{S: and(not(eq(v, "inil")), eq("(itag "+v+")", fmt.Sprint(x.q.typeID(strSliceT))), fmt.Sprintf("(slice_ok (%s %s))", func() string { _, u := x.q.boxFn(strSliceT); return u }(), v)), T: types.Typ[types.Bool]}, nil
	}
	regLib("github.com/google/uuid.NewString", func(x *FnExec, fr *frame, n *node, in ssa.Instruction, c *ssa.CallCommon, args []Val, reach, hint string) (Val, error) {
		return x.havocVal(hint, resultType(in, c), reach), nil
	})
}

func init() {
	// strOf(x any): the string carried by an interface value
	specLibFuncs["strOf"] = func(x *FnExec, c *evalCtx, args []Val) (Val, error) {
		_, unbox := x.q.boxFn(types.Typ[types.String])
		return Val{S: fmt.Sprintf("(%s %s)", unbox, args[0].S), T: types.Typ[types.String]}, nil
	}
	specLibFuncs["isStr"] = func(x *FnExec, c *evalCtx, args []Val) (Val, error) {
		return Val{S: and(not(eq(args[0].S, "inil")), eq("(itag "+args[0].S+")", fmt.Sprint(x.q.typeID(types.Typ[types.String])))), T: types.Typ[types.Bool]}, nil
	}
}

// ---- k8s.io/apimachinery/pkg/util/sets.String: a Go map[string]Empty, modelled with the ordinary map heaps ----
func init() {
	regSetModels("k8s.io/apimachinery/pkg/util/sets.NewString", "(k8s.io/apimachinery/pkg/util/sets.String).")
	// the generic sets.Set[T] (also a map[T]Empty)
	regSetModels("k8s.io/apimachinery/pkg/util/sets.New[T comparable]", "(k8s.io/apimachinery/pkg/util/sets.Set[T]).")
	libModels["k8s.io/apimachinery/pkg/util/sets.New"] = libModels["k8s.io/apimachinery/pkg/util/sets.New[T comparable]"]
}

func regSetModels(newName, pfx string) {
	mapT := func(c *ssa.CallCommon, i int) *types.Map {
		mt, _ := c.Args[i].Type().Underlying().(*types.Map)
		return mt
	}
	emptyVal := func(x *FnExec, mt *types.Map) string { return x.q.zero(mt.Elem()) }
	regLib(newName, func(x *FnExec, fr *frame, n *node, in ssa.Instruction, c *ssa.CallCommon, args []Val, reach, hint string) (Val, error) {
		rt := resultType(in, c)
		mt := rt.Underlying().(*types.Map)
		r := x.freshRef(n.st, "set", reach)
		x.mapInit(n.st, mt, r)
		if k, ok := x.constLen(c.Args[0]); ok && k <= 8 {
			hn, hs := x.elemHeap(mt.Key())
			for j := int64(0); j < k; j++ {
				el := sel(sel(x.heapGet(n.st, hn, hs), "(s_arr "+args[0].S+")"), x.arith("+", "(s_off "+args[0].S+")", x.ilit(j), tInt))
				x.mapStore(n.st, mt, r, el, emptyVal(x, mt))
			}
		} else if cst, isC := c.Args[0].(*ssa.Const); !(isC && cst.Value == nil) {
			// members = exactly the elements of the argument slice
			d, _, l, ks, _ := x.mapHeaps(mt)
			ds := fmt.Sprintf("(Array Ref (Array %s Bool))", ks)
			hn, hs := x.elemHeap(mt.Key())
			arr := x.q.define(hint+"_items", fmt.Sprintf("(Array %s %s)", x.q.intSort(), ks), sel(x.heapGet(n.st, hn, hs), "(s_arr "+args[0].S+")"))
			nd := x.q.freshConst(hint+"_dom", fmt.Sprintf("(Array %s Bool)", ks))
			off, ln := "(s_off "+args[0].S+")", "(s_len "+args[0].S+")"
			// every item is a member ...
			x.q.assert(fmt.Sprintf("(forall ((|i?new| %s)) (! (=> (and (>= |i?new| 0) (< |i?new| %s)) (select %s (select %s (+ %s |i?new|)))) :pattern ((select %s (+ %s |i?new|)))))", x.q.intSort(), ln, nd, arr, off, arr, off))
			// ... and every member is an item (witness function)
			wit := x.q.freshFun(hint+"_wit", []string{ks}, x.q.intSort())
			x.q.assert(fmt.Sprintf("(forall ((|k?new| %s)) (! (=> (select %s |k?new|) (and (>= (%s |k?new|) 0) (< (%s |k?new|) %s) (= (select %s (+ %s (%s |k?new|))) |k?new|))) :pattern ((select %s |k?new|))))", ks, nd, wit, wit, ln, arr, off, wit, nd))
			x.heapSet(n.st, d, ds, sto(x.heapGet(n.st, d, ds), r, nd))
			x.heapHavoc(n.st, l)
			x.trusted["sets.New(items...): the set's members are exactly the items (k8s apimachinery sets, modelled)"] = true
		}
		return Val{S: r, T: rt}, nil
	})
	regLib(pfx+"Has", func(x *FnExec, fr *frame, n *node, in ssa.Instruction, c *ssa.CallCommon, args []Val, reach, hint string) (Val, error) {
		return Val{S: x.q.define(hint, "Bool", x.mapHas(n.st, mapT(c, 0), args[0].S, args[1].S)), T: types.Typ[types.Bool]}, nil
	})
	regLib(pfx+"Len", func(x *FnExec, fr *frame, n *node, in ssa.Instruction, c *ssa.CallCommon, args []Val, reach, hint string) (Val, error) {
		return Val{S: x.q.define(hint, x.q.intSort(), x.mapLen(n.st, mapT(c, 0), args[0].S)), T: tInt}, nil
	})
	regLib(pfx+"Insert", func(x *FnExec, fr *frame, n *node, in ssa.Instruction, c *ssa.CallCommon, args []Val, reach, hint string) (Val, error) {
		mt := mapT(c, 0)
		if k, ok := x.constLen(c.Args[1]); ok && k <= 8 {
			hn, hs := x.elemHeap(mt.Key())
			for j := int64(0); j < k; j++ {
				el := sel(sel(x.heapGet(n.st, hn, hs), "(s_arr "+args[1].S+")"), x.arith("+", "(s_off "+args[1].S+")", x.ilit(j), tInt))
				x.mapStore(n.st, mt, args[0].S, el, emptyVal(x, mt))
			}
		} else {
			// unknown number of new members: the set only grows
			d, _, l, ks, _ := x.mapHeaps(mt)
			ds := fmt.Sprintf("(Array Ref (Array %s Bool))", ks)
			old := sel(x.heapGet(n.st, d, ds), args[0].S)
			nd := x.q.freshConst(hint+"_dom", fmt.Sprintf("(Array %s Bool)", ks))
			x.q.assert(fmt.Sprintf("(forall ((|k?ins| %s)) (! (=> (select %s |k?ins|) (select %s |k?ins|)) :pattern ((select %s |k?ins|))))", ks, old, nd, nd))
			x.heapSet(n.st, d, ds, sto(x.heapGet(n.st, d, ds), args[0].S, nd))
			x.heapHavoc(n.st, l)
		}
		return Val{S: args[0].S, T: resultType(in, c)}, nil
	}).writes = func(x *FnExec, c *ssa.CallCommon, out map[string]bool) {
		if mt := mapT(c, 0); mt != nil {
			d, v, l, ks, vs := x.mapHeaps(mt)
			x.q.heapDecl(d, fmt.Sprintf("(Array Ref (Array %s Bool))", ks))
			x.q.heapDecl(v, fmt.Sprintf("(Array Ref (Array %s %s))", ks, vs))
			x.q.heapDecl(l, fmt.Sprintf("(Array Ref %s)", x.q.intSort()))
			out[d], out[v], out[l] = true, true, true
		}
	}
	regLib(pfx+"Intersection", func(x *FnExec, fr *frame, n *node, in ssa.Instruction, c *ssa.CallCommon, args []Val, reach, hint string) (Val, error) {
		mt := mapT(c, 0)
		r := x.freshRef(n.st, "set", reach)
		x.mapInit(n.st, mt, r)
		d, _, l, ks, _ := x.mapHeaps(mt)
		ds := fmt.Sprintf("(Array Ref (Array %s Bool))", ks)
		h := x.heapGet(n.st, d, ds)
		nd := x.q.freshConst(hint+"_dom", fmt.Sprintf("(Array %s Bool)", ks))
		x.q.assert(fmt.Sprintf("(forall ((|k?int| %s)) (! (= (select %s |k?int|) (and (select (select %s %s) |k?int|) (select (select %s %s) |k?int|))) :pattern ((select %s |k?int|))))", ks, nd, h, args[0].S, h, args[1].S, nd))
		x.heapSet(n.st, d, ds, sto(h, r, nd))
		x.heapHavoc(n.st, l)
		return Val{S: r, T: resultType(in, c)}, nil
	})
	regLib(pfx+"List", func(x *FnExec, fr *frame, n *node, in ssa.Instruction, c *ssa.CallCommon, args []Val, reach, hint string) (Val, error) {
		mt := mapT(c, 0)
		res := x.havocVal(hint, resultType(in, c), reach)
		hn, hs := x.elemHeap(mt.Key())
		arr := x.q.freshConst(hint+"_arr", fmt.Sprintf("(Array %s %s)", x.q.intSort(), x.q.sortOf(mt.Key())))
		x.q.assert(eq(arr, sel(x.heapGet(n.st, hn, hs), "(s_arr "+res.S+")")))
		d, _, _, ks, _ := x.mapHeaps(mt)
		dom := sel(x.heapGet(n.st, d, fmt.Sprintf("(Array Ref (Array %s Bool))", ks)), args[0].S)
		// every listed element is a member (and the list is as long as the set)
		x.q.assert(fmt.Sprintf("(forall ((|i?lst| %s)) (! (=> (and (>= |i?lst| (s_off %s)) (< |i?lst| (+ (s_off %s) (s_len %s)))) (select %s (select %s |i?lst|))) :pattern ((select %s |i?lst|))))", x.q.intSort(), res.S, res.S, res.S, dom, arr, arr))
		x.q.assert(eq("(s_len "+res.S+")", x.mapLen(n.st, mt, args[0].S)))
		return res, nil
	})
}

// ---- controller-runtime client: Get/List fill the object passed in; writers refresh its metadata ----
func init() {
	objArg := func(x *FnExec, fr *frame, n *node, c *ssa.CallCommon, i int) (Val, bool) {
		if i >= len(c.Args) {
			return Val{}, false
		}
		if mi, ok := c.Args[i].(*ssa.MakeInterface); ok {
			if _, isPtr := mi.X.Type().Underlying().(*types.Pointer); isPtr {
				return x.value(fr, n.env, mi.X), true
			}
		}
		return Val{}, false
	}
	fill := func(argIdx int, what string) func(x *FnExec, fr *frame, n *node, in ssa.Instruction, c *ssa.CallCommon, args []Val, reach, hint string) (Val, error) {
		return func(x *FnExec, fr *frame, n *node, in ssa.Instruction, c *ssa.CallCommon, args []Val, reach, hint string) (Val, error) {
			res := x.havocVal(hint, resultType(in, c), reach)
			// for invoke calls c.Args excludes the receiver
			if obj, ok := objArg(x, fr, n, c, argIdx); ok {
				if what == "all" {
					x.havocPointee(n.st, reach, hint, obj)
				} else {
					// writers: the server's copy comes back — metadata (resourceVersion, generation, ...) is refreshed
					if a := x.pointerAddr(obj); a != nil && a.Root == rootField && a.Idx == "whole" {
						stt := a.RootT.Underlying().(*types.Struct)
						for i := 0; i < stt.NumFields(); i++ {
							if stt.Field(i).Name() == "ObjectMeta" {
								hn, hs, ft := x.fieldHeap(a.RootT, i)
								v := x.havocVal(hint+"_meta", ft, reach)
								x.heapSet(n.st, hn, hs, sto(x.heapGet(n.st, hn, hs), a.Base, v.S))
							}
						}
					}
				}
			}
			x.trusted["controller-runtime client: Get/List overwrite the object passed in with arbitrary type-valid content (any error); Create/Update/Patch/Delete refresh only its ObjectMeta"] = true
			return res, nil
		}
	}
	wr := func(argIdx int) func(x *FnExec, c *ssa.CallCommon, out map[string]bool) {
		return func(x *FnExec, c *ssa.CallCommon, out map[string]bool) {
			if argIdx < len(c.Args) {
				if mi, ok := c.Args[argIdx].(*ssa.MakeInterface); ok {
					if pt, ok := mi.X.Type().Underlying().(*types.Pointer); ok {
						if stt, ok := pt.Elem().Underlying().(*types.Struct); ok {
							for i := 0; i < stt.NumFields(); i++ {
								hn, hs, _ := x.fieldHeap(pt.Elem(), i)
								x.q.heapDecl(hn, hs)
								out[hn] = true
							}
						}
					}
				}
			}
		}
	}
	for _, iface := range []string{"sigs.k8s.io/controller-runtime/pkg/client.Client", "sigs.k8s.io/controller-runtime/pkg/client.Reader", "sigs.k8s.io/controller-runtime/pkg/client.WithWatch"} {
		libInvokeModels[iface+".Get"] = &libModel{name: "client.Get", apply: fill(2, "all"), writes: wr(2)}
		libInvokeModels[iface+".List"] = &libModel{name: "client.List", apply: fill(1, "all"), writes: wr(1)}
		for _, m := range []string{"Create", "Update", "Patch", "Delete"} {
			libInvokeModels[iface+"."+m] = &libModel{name: "client." + m, apply: fill(1, "meta"), writes: wr(1)}
		}
	}
	for _, iface := range []string{"sigs.k8s.io/controller-runtime/pkg/client.StatusWriter", "sigs.k8s.io/controller-runtime/pkg/client.SubResourceWriter"} {
		for _, m := range []string{"Update", "Patch"} {
			libInvokeModels[iface+"."+m] = &libModel{name: "client.Status()." + m, apply: fill(1, "meta"), writes: wr(1)}
		}
	}
}

// ---- time: one abstract monotone clock; time.Time values carry an instant (nanoseconds, mathematical integer) ----
func (x *FnExec) instantOf(t string) string {
	tt := x.timeType
	if tt == nil {
		return "0"
	}
	x.q.declareFun("lib_instant", []string{x.q.sortOf(tt)}, "Int")
	return "(lib_instant " + t + ")"
}

func init() {
	setTT := func(x *FnExec, t types.Type) {
		if x.timeType == nil {
			if p, ok := t.Underlying().(*types.Pointer); ok {
				t = p.Elem()
			}
			x.timeType = t
		}
	}
	regLib("time.Now", func(x *FnExec, fr *frame, n *node, in ssa.Instruction, c *ssa.CallCommon, args []Val, reach, hint string) (Val, error) {
		rt := resultType(in, c)
		setTT(x, rt)
		r := x.havocVal(hint, rt, reach)
		// the clock never goes backwards
		clk := x.heapGet(n.st, "$clock", "Int")
		x.q.assert(fmt.Sprintf("(>= %s %s)", x.instantOf(r.S), clk))
		x.heapSet(n.st, "$clock", "Int", x.instantOf(r.S))
		x.trusted["time: one abstract monotone clock; Time.Add/After/Before/Sub are integer arithmetic on instants"] = true
		return r, nil
	})
	clockW := func(x *FnExec, c *ssa.CallCommon, out map[string]bool) {
		x.q.heapDecl("$clock", "Int")
		out["$clock"] = true
	}
	libModels["time.Now"].writes = clockW
	regLib("k8s.io/apimachinery/pkg/apis/meta/v1.Now", func(x *FnExec, fr *frame, n *node, in ssa.Instruction, c *ssa.CallCommon, args []Val, reach, hint string) (Val, error) {
		return x.havocVal(hint, resultType(in, c), reach), nil
	})
	regLib("(time.Time).Add", func(x *FnExec, fr *frame, n *node, in ssa.Instruction, c *ssa.CallCommon, args []Val, reach, hint string) (Val, error) {
		rt := resultType(in, c)
		setTT(x, rt)
		r := x.havocVal(hint, rt, reach)
		x.q.assert(eq(x.instantOf(r.S), fmt.Sprintf("(+ %s %s)", x.instantOf(args[0].S), args[1].S)))
		return r, nil
	})
	cmpT := func(op string) func(x *FnExec, fr *frame, n *node, in ssa.Instruction, c *ssa.CallCommon, args []Val, reach, hint string) (Val, error) {
		return func(x *FnExec, fr *frame, n *node, in ssa.Instruction, c *ssa.CallCommon, args []Val, reach, hint string) (Val, error) {
			setTT(x, c.Args[0].Type())
			return Val{S: x.q.define(hint, "Bool", fmt.Sprintf("(%s %s %s)", op, x.instantOf(args[0].S), x.instantOf(args[1].S))), T: types.Typ[types.Bool]}, nil
		}
	}
	regLib("(time.Time).After", cmpT(">"))
	regLib("(time.Time).Before", cmpT("<"))
	regLib("(time.Time).Equal", cmpT("="))
	regLib("(time.Time).Sub", func(x *FnExec, fr *frame, n *node, in ssa.Instruction, c *ssa.CallCommon, args []Val, reach, hint string) (Val, error) {
		setTT(x, c.Args[0].Type())
		return Val{S: x.q.define(hint, "Int", fmt.Sprintf("(- %s %s)", x.instantOf(args[0].S), x.instantOf(args[1].S))), T: resultType(in, c)}, nil
	})
	regLib("time.Since", func(x *FnExec, fr *frame, n *node, in ssa.Instruction, c *ssa.CallCommon, args []Val, reach, hint string) (Val, error) {
		setTT(x, c.Args[0].Type())
		clk := x.heapGet(n.st, "$clock", "Int")
		now := x.q.freshConst(hint+"_now", "Int")
		x.q.assert(fmt.Sprintf("(>= %s %s)", now, clk))
		x.heapSet(n.st, "$clock", "Int", now)
		return Val{S: x.q.define(hint, "Int", fmt.Sprintf("(- %s %s)", now, x.instantOf(args[0].S))), T: resultType(in, c)}, nil
	})
	// (value, error) parsers as deterministic functions
	for goName, spec := range map[string]string{"time.ParseDuration": "parseDuration"} {
		goName, spec := goName, spec
		regLib(goName, func(x *FnExec, fr *frame, n *node, in ssa.Instruction, c *ssa.CallCommon, args []Val, reach, hint string) (Val, error) {
			rt := resultType(in, c).(*types.Tuple)
			okF := x.q.declareFun("pf_"+spec+"OK", []string{"Str"}, "Bool")
			valF := x.q.declareFun("pf_"+spec+"Val", []string{"Str"}, x.q.sortOf(rt.At(0).Type()))
			res := x.havocVal(hint, rt, reach)
			ok := fmt.Sprintf("(%s %s)", okF, args[0].S)
			x.q.assert(eq(eq(res.Tuple[1].S, "inil"), ok))
			x.q.assert(implies(ok, eq(res.Tuple[0].S, fmt.Sprintf("(%s %s)", valF, args[0].S))))
			return res, nil
		})
		specLibFuncs[spec+"OK"] = func(x *FnExec, c *evalCtx, args []Val) (Val, error) {
			fn := x.q.declareFun("pf_"+spec+"OK", []string{"Str"}, "Bool")
			return Val{S: fmt.Sprintf("(%s %s)", fn, args[0].S), T: types.Typ[types.Bool]}, nil
		}
		specLibFuncs[spec+"Val"] = func(x *FnExec, c *evalCtx, args []Val) (Val, error) {
			fn := x.q.declareFun("pf_"+spec+"Val", []string{"Str"}, x.q.intSort())
			return Val{S: fmt.Sprintf("(%s %s)", fn, args[0].S), T: tInt}, nil
		}
	}
	// spec-level: instant(t time.Time) and clock()
	specLibFuncs["instant"] = func(x *FnExec, c *evalCtx, args []Val) (Val, error) {
		if args[0].T != nil {
			t := args[0].T
			// metav1.Time wraps time.Time: look through
			if st, ok := t.Underlying().(*types.Struct); ok && st.NumFields() == 1 && st.Field(0).Name() == "Time" {
				inner := x.q.structGet(t, args[0].S, 0)
				if x.timeType == nil {
					x.timeType = st.Field(0).Type()
				}
				return Val{S: x.instantOf(inner), T: tInt}, nil
			}
			if x.timeType == nil {
				x.timeType = t
			}
		}
		return Val{S: x.instantOf(args[0].S), T: tInt}, nil
	}
	specLibFuncs["clock"] = func(x *FnExec, c *evalCtx, args []Val) (Val, error) {
		return Val{S: x.heapGet(c.state(), "$clock", "Int"), T: tInt}, nil
	}
}

func init() {
	// (*metav1.Time).Before(u *Time): both non-nil and t.Time before u.Time
	regLib("(*k8s.io/apimachinery/pkg/apis/meta/v1.Time).Before", func(x *FnExec, fr *frame, n *node, in ssa.Instruction, c *ssa.CallCommon, args []Val, reach, hint string) (Val, error) {
		load := func(v Val) (string, string) {
			a := x.pointerAddr(v)
			if a == nil {
				return "", "false"
			}
			nonNil := "true"
			if v.Addr == nil {
				nonNil = not(eq(v.S, "nil"))
			}
			mt := a.T // metav1.Time struct{ time.Time }
			val := x.loadAddr(n.st, a)
			st, ok := mt.Underlying().(*types.Struct)
			if !ok || st.NumFields() != 1 {
				return "", "false"
			}
			if x.timeType == nil {
				x.timeType = st.Field(0).Type()
			}
			return x.instantOf(x.q.structGet(mt, val, 0)), nonNil
		}
		ti, tn := load(args[0])
		ui, un := load(args[1])
		if ti == "" || ui == "" {
			return x.havocVal(hint, resultType(in, c), reach), nil
		}
		return Val{S: x.q.define(hint, "Bool", and(tn, un, fmt.Sprintf("(< %s %s)", ti, ui))), T: types.Typ[types.Bool]}, nil
	})
}

// ---- prometheus metric vectors: WithLabelValues returns a usable (non-nil) metric; it panics on a label-count mismatch,
// which is a programming error outside the scope of hostile-input properties ----
func init() {
	for _, v := range []string{"GaugeVec", "CounterVec", "HistogramVec", "SummaryVec"} {
		regLib("(*github.com/prometheus/client_golang/prometheus."+v+").WithLabelValues", func(x *FnExec, fr *frame, n *node, in ssa.Instruction, c *ssa.CallCommon, args []Val, reach, hint string) (Val, error) {
			res := x.havocVal(hint, resultType(in, c), reach)
			x.q.assert(implies(reach, not(eq(res.S, "inil"))))
			x.trusted["prometheus *Vec.WithLabelValues returns a non-nil metric (label-count mismatch panics are out of scope)"] = true
			return res, nil
		})
	}
}

// ---- errors.Is: a deterministic relation between an error value and a target (the chain walk is not modelled);
// reflexive, and nothing but nil "is" nil ----
func errIsTerm(x *FnExec, e, target string) string {
	x.q.declareFun("err_is", []string{"Iface", "Iface"}, "Bool")
	t := fmt.Sprintf("(err_is %s %s)", e, target)
	x.q.assert(implies(eq(e, target), t))
	x.q.assert(implies(eq(e, "inil"), eq(t, eq(target, "inil"))))
	return t
}

func init() {
	regLib("errors.Is", func(x *FnExec, fr *frame, n *node, in ssa.Instruction, c *ssa.CallCommon, args []Val, reach, hint string) (Val, error) {
		x.trusted["errors.Is: a deterministic relation of (error, target), reflexive; wrapping chains not modelled"] = true
		return Val{S: x.q.define(hint, "Bool", errIsTerm(x, args[0].S, args[1].S)), T: types.Typ[types.Bool]}, nil
	})
	specLibFuncs["errIs"] = func(x *FnExec, c *evalCtx, args []Val) (Val, error) {
		if len(args) != 2 {
			return Val{}, fmt.Errorf("errIs(err, target)")
		}
		return Val{S: errIsTerm(x, args[0].S, args[1].S), T: types.Typ[types.Bool]}, nil
	}
}

func init() {
	// netip.ParseAddr(s): the address and whether it parses are functions of the string (spec functions parseAddr /
	// parseAddrOK); nothing is said about WHICH address a string denotes.
	regLib("net/netip.ParseAddr", func(x *FnExec, fr *frame, n *node, in ssa.Instruction, c *ssa.CallCommon, args []Val, reach, hint string) (Val, error) {
		res := x.havocVal(hint, resultType(in, c), reach)
		at := res.Tuple[0].T
		srt := x.q.sortOf(at)
		x.q.declareFun("lib_parseAddr", []string{"Str"}, srt)
		x.q.declareFun("lib_parseAddrOK", []string{"Str"}, "Bool")
		x.netipAddrT = at
		x.q.assert(implies(reach, and(eq(res.Tuple[0].S, "(lib_parseAddr "+args[0].S+")"), eq(eq(res.Tuple[1].S, "inil"), "(lib_parseAddrOK "+args[0].S+")"))))
		x.trusted["netip.ParseAddr is a function of its argument (same string, same address, same verdict)"] = true
		return res, nil
	})
	specLibFuncs["parseAddr"] = func(x *FnExec, c *evalCtx, args []Val) (Val, error) {
		at := x.netipAddrT
		if at == nil {
			te, err := newParser("netip.Addr").parseType()
			if err != nil {
				return Val{}, err
			}
			t, _, err := x.eng.resolveType(x, c.pkg, te)
			if err != nil {
				return Val{}, err
			}
			at = t
		}
		srt := x.q.sortOf(at)
		x.q.declareFun("lib_parseAddr", []string{"Str"}, srt)
		return Val{S: "(lib_parseAddr " + args[0].S + ")", T: at, Sort: srt}, nil
	}
	specLibFuncs["parseAddrOK"] = func(x *FnExec, c *evalCtx, args []Val) (Val, error) {
		x.q.declareFun("lib_parseAddrOK", []string{"Str"}, "Bool")
		return Val{S: "(lib_parseAddrOK " + args[0].S + ")", T: types.Typ[types.Bool]}, nil
	}
}

func init() {
	// (*sync.Cond).Wait releases the monitor: in a function whose contract says `yields`, every heap (not the ghosts, not
	// the allocation set) is arbitrary afterwards. Without the clause the wait is a no-op (stated in the evidence).
	regLib("(*sync.Cond).Wait", func(x *FnExec, fr *frame, n *node, in ssa.Instruction, c *ssa.CallCommon, args []Val, reach, hint string) (Val, error) {
		if x.topSpec != nil && x.topSpec.Yields {
			var hs []string
			for h := range x.q.heaps {
				if strings.HasPrefix(h, "$") {
					continue
				}
				hs = append(hs, h)
			}
			sort.Strings(hs)
			for _, h := range hs {
				x.heapHavoc(n.st, h)
			}
			x.trusted["sync.Cond.Wait (yields): all heaps arbitrary after the wait; allocation set and ghosts kept"] = true
		} else {
			x.trusted["sync.Cond.Wait treated as a no-op (no `yields` clause): state read before the wait is assumed unchanged after it"] = true
		}
		return Val{T: resultType(in, c)}, nil
	})
}

func init() {
	// pod.GetObjectMeta().GetOwnerReferences(): both steps are functions of their receiver (the owner list of an object does
	// not change between two reads inside one function that does not write it) — spec function ownerRefsOf(pod)
	regLib("(*k8s.io/apimachinery/pkg/apis/meta/v1.ObjectMeta).GetObjectMeta", func(x *FnExec, fr *frame, n *node, in ssa.Instruction, c *ssa.CallCommon, args []Val, reach, hint string) (Val, error) {
		// the receiver is &obj.ObjectMeta: the result is a function of the enclosing object
		base := x.scalar(args[0])
		if a := x.pointerAddr(args[0]); a != nil && a.Base != "" {
			base = a.Base
		}
		fn := x.q.declareFun("lib_getObjectMeta", []string{"Ref"}, "Iface")
		return Val{S: fmt.Sprintf("(%s %s)", fn, base), T: resultType(in, c)}, nil
	})
	libInvokeModels["k8s.io/apimachinery/pkg/apis/meta/v1.Object.GetOwnerReferences"] = &libModel{name: "Object.GetOwnerReferences", apply: func(x *FnExec, fr *frame, n *node, in ssa.Instruction, c *ssa.CallCommon, args []Val, reach, hint string) (Val, error) {
		recv := x.value(fr, n.env, c.Value)
		rt := resultType(in, c)
		x.ownerRefsT = rt
		fn := x.q.declareFun("lib_ownerRefs", []string{x.q.sortOf(recv.T)}, x.q.sortOf(rt))
		term := fmt.Sprintf("(%s %s)", fn, x.scalar(recv))
		x.assumeValid(reach, term, rt)
		x.assumeAllocT(n.st, reach, term, rt, 1)
		x.trusted["metav1.Object.GetOwnerReferences / (*Pod).GetObjectMeta are functions of their receiver (same object, same owner list)"] = true
		return Val{S: term, T: rt}, nil
	}}
	specLibFuncs["ownerRefsOf"] = func(x *FnExec, c *evalCtx, args []Val) (Val, error) {
		if x.ownerRefsT == nil {
			if p := x.eng.pkgByPath("k8s.io/apimachinery/pkg/apis/meta/v1"); p != nil {
				if o := p.Scope().Lookup("OwnerReference"); o != nil {
					x.ownerRefsT = types.NewSlice(o.Type())
				}
			}
		}
		if x.ownerRefsT == nil {
			return Val{}, fmt.Errorf("ownerRefsOf: metav1.OwnerReference not loaded")
		}
		om := x.q.declareFun("lib_getObjectMeta", []string{"Ref"}, "Iface")
		fn := x.q.declareFun("lib_ownerRefs", []string{"Iface"}, x.q.sortOf(x.ownerRefsT))
		return Val{S: fmt.Sprintf("(%s (%s %s))", fn, om, args[0].S), T: x.ownerRefsT}, nil
	}
}
