package main

import (
	"fmt"
	"go/types"
	"sort"
	"strings"
)

// Mode selects the integer theory for one function's verification conditions.
type Mode int

const (
	ModeInt Mode = iota // mathematical integers
	ModeBV              // fixed-width bit-vectors (int = 64)
)

// Q is the SMT query builder for one function run: declarations (order-preserving) and an ordered body
// of definitions/assertions. An obligation is a prefix of the body plus a negated goal.
type Q struct {
	mode      Mode
	sortDecls []string // datatype / sort declarations in dependency order
	decls     []string // declare-const / declare-fun
	body      []string // define-fun / assert, in program order
	declared  map[string]string
	structs   map[string]*structInfo // by sort name
	structKey map[string]string      // canonical type string -> sort name
	heaps     map[string]string      // heap name -> sort
	fresh     map[string]int
	strLits   map[string]string // literal -> const name
	strOrder  []string
	typeIDs   map[string]int
	boxFns    map[string]bool
	notes     map[string]bool // abstraction notes (assumptions met during translation)
	defCache  map[string]string
	defs      map[string]string
	constArrs []string
}

type structInfo struct {
	sort   string
	st     *types.Struct
	fields []string // selector names
	name   string   // display name
}

func newQ(mode Mode) *Q {
	return &Q{mode: mode, declared: map[string]string{}, structs: map[string]*structInfo{}, structKey: map[string]string{},
		heaps: map[string]string{}, fresh: map[string]int{}, strLits: map[string]string{}, typeIDs: map[string]int{}, boxFns: map[string]bool{}, notes: map[string]bool{}, defCache: map[string]string{}, defs: map[string]string{}}
}

func (q *Q) note(s string) { q.notes[s] = true }

func (q *Q) intSort() string {
	if q.mode == ModeBV {
		return "(_ BitVec 64)"
	}
	return "Int"
}

func basicBits(b *types.Basic) (bits int, signed bool) {
	switch b.Kind() {
	case types.Int8:
		return 8, true
	case types.Uint8:
		return 8, false
	case types.Int16:
		return 16, true
	case types.Uint16:
		return 16, false
	case types.Int32, types.UntypedRune:
		return 32, true
	case types.Uint32:
		return 32, false
	case types.Int64, types.Int, types.UntypedInt:
		return 64, true
	case types.Uint64, types.Uint, types.Uintptr:
		return 64, false
	}
	return 0, false
}

func isInteger(t types.Type) bool {
	b, ok := t.Underlying().(*types.Basic)
	return ok && b.Info()&types.IsInteger != 0
}
func isUnsigned(t types.Type) bool {
	b, ok := t.Underlying().(*types.Basic)
	return ok && b.Info()&types.IsUnsigned != 0
}
func isString(t types.Type) bool {
	b, ok := t.Underlying().(*types.Basic)
	return ok && b.Info()&types.IsString != 0
}
func isBool(t types.Type) bool {
	b, ok := t.Underlying().(*types.Basic)
	return ok && b.Info()&types.IsBoolean != 0
}
func isFloat(t types.Type) bool {
	b, ok := t.Underlying().(*types.Basic)
	return ok && b.Info()&types.IsFloat != 0
}

var mangleRepl = strings.NewReplacer("|", "", "/", "_", ".", "_", "*", "P", "[", "L", "]", "R", " ", "", "{", "_", "}", "_", ";", "_", ",", "_", "(", "_", ")", "_", "-", "_", "\"", "", "`", "", ":", "_")

func mangle(s string) string { return mangleRepl.Replace(s) }

func shortQual(p *types.Package) string { return p.Name() }

// typeKey gives a canonical, collision-resistant string for a type (full paths).
func typeKey(t types.Type) string { return types.TypeString(t, nil) }

// typeShort gives a readable short name for a type (byte/rune aliases canonicalised).
func typeShort(t types.Type) string {
	if b, ok := t.(*types.Basic); ok {
		return types.Typ[b.Kind()].Name()
	}
	s := types.TypeString(t, shortQual)
	s = strings.ReplaceAll(s, "[]byte", "[]uint8")
	s = strings.ReplaceAll(s, "]byte", "]uint8")
	s = strings.ReplaceAll(s, "[]rune", "[]int32")
	return mangle(s)
}

// sortOf maps a Go type to its SMT sort (declaring datatypes on demand).
func (q *Q) sortOf(t types.Type) string {
	switch u := t.Underlying().(type) {
	case *types.Basic:
		switch {
		case u.Info()&types.IsBoolean != 0:
			return "Bool"
		case u.Info()&types.IsInteger != 0:
			if q.mode == ModeBV {
				bits, _ := basicBits(u)
				return fmt.Sprintf("(_ BitVec %d)", bits)
			}
			return "Int"
		case u.Info()&types.IsFloat != 0:
			return "Real"
		case u.Info()&types.IsString != 0:
			return "Str"
		case u.Kind() == types.UnsafePointer:
			return "Ref"
		case u.Kind() == types.UntypedNil:
			return "Ref"
		case u.Info()&types.IsComplex != 0:
			return "Real"
		}
		return "Int"
	case *types.Pointer, *types.Map, *types.Chan, *types.Signature:
		return "Ref"
	case *types.Slice:
		return "Slice"
	case *types.Interface:
		return "Iface"
	case *types.Array:
		return fmt.Sprintf("(Array %s %s)", q.intSort(), q.sortOf(u.Elem()))
	case *types.Struct:
		return q.structSort(t)
	case *types.Tuple:
		return "Tuple!"
	case *types.TypeParam:
		return "Iface"
	}
	return "Ref"
}

func (q *Q) structSort(t types.Type) string {
	key := typeKey(t)
	if s, ok := q.structKey[key]; ok {
		return s
	}
	st := t.Underlying().(*types.Struct)
	name := "S_" + typeShort(t)
	if len(name) > 60 {
		name = fmt.Sprintf("S_anon%d", len(q.structKey))
	}
	for _, ok := q.structs[name]; ok; _, ok = q.structs[name] {
		name += "_"
	}
	q.structKey[key] = name
	info := &structInfo{sort: name, st: st, name: types.TypeString(t, shortQual)}
	q.structs[name] = info
	// declare dependencies first
	var fs []string
	for i := 0; i < st.NumFields(); i++ {
		f := st.Field(i)
		sel := fmt.Sprintf("%s.%s", name, mangle(f.Name()))
		if f.Name() == "_" {
			sel = fmt.Sprintf("%s._%d", name, i)
		}
		info.fields = append(info.fields, "|"+sel+"|")
		fs = append(fs, fmt.Sprintf("(|%s| %s)", sel, q.sortOf(f.Type())))
	}
	if len(fs) == 0 {
		fs = append(fs, fmt.Sprintf("(|%s._empty| Bool)", name))
	}
	q.sortDecls = append(q.sortDecls, fmt.Sprintf("(declare-datatypes ((%s 0)) (((|mk_%s| %s))))", name, name, strings.Join(fs, " ")))
	return name
}

func (q *Q) structInfoOf(t types.Type) *structInfo {
	s := q.structSort(t)
	return q.structs[s]
}

// mkStruct builds a constructor application from field terms.
func (q *Q) mkStruct(t types.Type, fields []string) string {
	info := q.structInfoOf(t)
	if len(fields) == 0 {
		return fmt.Sprintf("(|mk_%s| true)", info.sort)
	}
	return fmt.Sprintf("(|mk_%s| %s)", info.sort, strings.Join(fields, " "))
}

func (q *Q) structGet(t types.Type, v string, i int) string {
	info := q.structInfoOf(t)
	return fmt.Sprintf("(%s %s)", info.fields[i], v)
}

func (q *Q) structSet(t types.Type, v string, i int, nv string) string {
	info := q.structInfoOf(t)
	fs := make([]string, len(info.fields))
	for j := range info.fields {
		if j == i {
			fs[j] = nv
		} else {
			fs[j] = fmt.Sprintf("(%s %s)", info.fields[j], v)
		}
	}
	return q.mkStruct(t, fs)
}

func (q *Q) intLit(n int64, t types.Type) string {
	if q.mode == ModeBV {
		bits := 64
		if t != nil {
			if b, ok := t.Underlying().(*types.Basic); ok {
				if bb, _ := basicBits(b); bb > 0 {
					bits = bb
				}
			}
		}
		return bvLit(n, bits)
	}
	if n < 0 {
		return fmt.Sprintf("(- %d)", -n)
	}
	return fmt.Sprintf("%d", n)
}

func bvLit(n int64, bits int) string {
	u := uint64(n)
	if bits < 64 {
		u &= (uint64(1) << uint(bits)) - 1
	}
	return fmt.Sprintf("(_ bv%d %d)", u, bits)
}

func (q *Q) bitsOf(t types.Type) int {
	if b, ok := t.Underlying().(*types.Basic); ok {
		if bb, _ := basicBits(b); bb > 0 {
			return bb
		}
	}
	return 64
}

// zero value term of a Go type
func (q *Q) zero(t types.Type) string {
	switch u := t.Underlying().(type) {
	case *types.Basic:
		switch {
		case u.Info()&types.IsBoolean != 0:
			return "false"
		case u.Info()&types.IsInteger != 0:
			return q.intLit(0, t)
		case u.Info()&types.IsFloat != 0, u.Info()&types.IsComplex != 0:
			return "0.0"
		case u.Info()&types.IsString != 0:
			return q.strLit("")
		}
		return "nil"
	case *types.Pointer, *types.Map, *types.Chan, *types.Signature:
		return "nil"
	case *types.Slice:
		return q.nilSlice()
	case *types.Interface, *types.TypeParam:
		return "inil"
	case *types.Array:
		return q.constArray(q.sortOf(t), q.intSort(), q.zero(u.Elem()))
	case *types.Struct:
		fs := make([]string, u.NumFields())
		for i := range fs {
			fs[i] = q.zero(u.Field(i).Type())
		}
		return q.mkStruct(t, fs)
	}
	return "nil"
}

// constArray: an array that maps every index to `val`. SMT-LIB `as const` needs a value; for declared constants
// (nil, string literals, ...) an axiomatised array constant is used instead.
func (q *Q) constArray(arrSort, idxSort, val string) string {
	if val == "false" || val == "true" || val == "0.0" || isNumeral(val) || strings.HasPrefix(val, "(_ bv") {
		return fmt.Sprintf("((as const %s) %s)", arrSort, val)
	}
	key := "constarr:" + arrSort + ":" + val
	if n, ok := q.declared[key]; ok {
		return n
	}
	n := fmt.Sprintf("|constarr!%d|", len(q.constArrs))
	q.constArrs = append(q.constArrs, fmt.Sprintf("(declare-const %s %s)\n(assert (forall ((|i?ca| %s)) (! (= (select %s |i?ca|) %s) :pattern ((select %s |i?ca|)))))", n, arrSort, idxSort, n, val, n))
	q.declared[key] = n
	return n
}

func isNumeral(s string) bool {
	if s == "" {
		return false
	}
	for _, c := range s {
		if c < '0' || c > '9' {
			return false
		}
	}
	return true
}

func (q *Q) nilSlice() string {
	z := q.intLit(0, nil)
	return fmt.Sprintf("(mkslice nil %s %s %s)", z, z, z)
}

func (q *Q) strLit(s string) string {
	if c, ok := q.strLits[s]; ok {
		return c
	}
	c := fmt.Sprintf("strlit%d", len(q.strLits))
	q.strLits[s] = c
	q.strOrder = append(q.strOrder, s)
	return c
}

func (q *Q) declare(name, sort string) string {
	if old, ok := q.declared[name]; ok {
		if old != sort {
			panic(fmt.Sprintf("redeclare %s: %s vs %s", name, old, sort))
		}
		return name
	}
	q.declared[name] = sort
	q.decls = append(q.decls, fmt.Sprintf("(declare-const %s %s)", name, sort))
	return name
}

func (q *Q) declareSortOnce(name string) {
	if _, ok := q.declared["sort:"+name]; ok {
		return
	}
	q.declared["sort:"+name] = name
	q.sortDecls = append(q.sortDecls, fmt.Sprintf("(declare-sort %s 0)", name))
}

func (q *Q) declareFun(name string, args []string, ret string) string {
	sig := "(" + strings.Join(args, " ") + ") " + ret
	if old, ok := q.declared[name]; ok {
		if old != sig {
			panic(fmt.Sprintf("redeclare fun %s: %s vs %s", name, old, sig))
		}
		return name
	}
	q.declared[name] = sig
	q.decls = append(q.decls, fmt.Sprintf("(declare-fun %s %s)", name, sig))
	return name
}

// freshConst declares a new constant with a readable unique name.
func (q *Q) freshConst(hint, sort string) string {
	hint = mangle(hint)
	q.fresh[hint]++
	name := fmt.Sprintf("%s!%d", hint, q.fresh[hint])
	name = "|" + name + "|"
	q.declared[name] = sort
	q.decls = append(q.decls, fmt.Sprintf("(declare-const %s %s)", name, sort))
	return name
}

func (q *Q) assert(f string) { q.body = append(q.body, fmt.Sprintf("(assert %s)", f)) }

// define names a term; identical (sort, term) pairs share one name (common-subexpression elimination), which keeps
// repeated loads of the same location syntactically identical.
func (q *Q) define(hint, sort, term string) string {
	key := sort + "\x00" + term
	if n, ok := q.defCache[key]; ok {
		return n
	}
	n := q.define0(hint, sort, term)
	q.defCache[key] = n
	q.defs[n] = term
	return n
}

// rw: read-over-write simplification on named heap versions: select(store(b,k,v),k) -> v (syntactic keys only)
func (q *Q) rw(arr, idx string) string {
	for i := 0; i < 64; i++ {
		t, ok := q.defs[arr]
		if !ok {
			break
		}
		if !strings.HasPrefix(t, "(store ") {
			break
		}
		parts := splitTop(t[1 : len(t)-1])
		if len(parts) != 4 {
			break
		}
		if parts[2] == idx {
			return parts[3]
		}
		break // different key: cannot skip syntactically (may alias)
	}
	return "(select " + arr + " " + idx + ")"
}

// splitTop splits an s-expression body into its top-level items.
func splitTop(s string) []string {
	var out []string
	depth, start, inBar := 0, -1, false
	for i := 0; i < len(s); i++ {
		c := s[i]
		switch {
		case c == '|':
			if start < 0 {
				start = i
			}
			inBar = !inBar
		case inBar:
		case c == '(':
			if start < 0 {
				start = i
			}
			depth++
		case c == ')':
			depth--
		case c == ' ':
			if depth == 0 && start >= 0 {
				out = append(out, s[start:i])
				start = -1
			}
		default:
			if start < 0 {
				start = i
			}
		}
	}
	if start >= 0 {
		out = append(out, s[start:])
	}
	return out
}

func (q *Q) define0(hint, sort, term string) string {
	hint = mangle(hint)
	q.fresh[hint]++
	name := fmt.Sprintf("|%s!%d|", hint, q.fresh[hint])
	q.body = append(q.body, fmt.Sprintf("(define-fun %s () %s %s)", name, sort, term))
	return name
}

// heap returns the initial-state array constant for a heap name, declaring it on first use.
func (q *Q) heapDecl(name, sort string) {
	if _, ok := q.heaps[name]; !ok {
		q.heaps[name] = sort
	}
}

func (q *Q) typeID(t types.Type) int {
	k := typeKey(t)
	if id, ok := q.typeIDs[k]; ok {
		return id
	}
	id := len(q.typeIDs) + 1
	q.typeIDs[k] = id
	return id
}

// box/unbox function names for carrying a value of sort s inside an Iface
func (q *Q) boxFn(t types.Type) (box, unbox string) {
	s := q.sortOf(t)
	n := mangle(s)
	box, unbox = "box_"+n, "unbox_"+n
	if !q.boxFns[n] {
		q.boxFns[n] = true
		q.declareFun(box, []string{s}, "Iface")
		q.declareFun(unbox, []string{"Iface"}, s)
	}
	return
}

func (q *Q) prelude() string {
	var b strings.Builder
	b.WriteString("(set-option :produce-models true)\n(set-logic ALL)\n")
	b.WriteString("(declare-sort Ref 0)\n(declare-const nil Ref)\n(declare-sort Str 0)\n(declare-sort Iface 0)\n(declare-const inil Iface)\n")
	is := q.intSort()
	b.WriteString(fmt.Sprintf("(declare-fun strlen (Str) %s)\n", is))
	b.WriteString(fmt.Sprintf("(declare-fun str_at (Str %s) %s)\n", is, q.sortOf(types.Typ[types.Uint8])))
	b.WriteString(fmt.Sprintf("(declare-fun str_sub (Str %s %s) Str)\n", is, is))
	b.WriteString("(declare-fun str_concat (Str Str) Str)\n")
	b.WriteString("(declare-fun str_lt (Str Str) Bool)\n")
	b.WriteString(fmt.Sprintf("(declare-fun itag (Iface) %s)\n", "Int"))
	b.WriteString(fmt.Sprintf("(declare-datatypes ((Slice 0)) (((mkslice (s_arr Ref) (s_off %s) (s_len %s) (s_cap %s)))))\n", is, is, is))
	if q.mode == ModeInt {
		b.WriteString("(define-fun tdiv ((a Int) (b Int)) Int (ite (>= a 0) (ite (> b 0) (div a b) (- (div a (- b)))) (ite (> b 0) (- (div (- a) b)) (div (- a) (- b)))))\n")
		b.WriteString("(define-fun tmod ((a Int) (b Int)) Int (- a (* b (tdiv a b))))\n")
		b.WriteString("(define-fun slice_ok ((s Slice)) Bool (and (>= (s_off s) 0) (>= (s_len s) 0) (>= (s_cap s) (s_len s)) (<= (s_cap s) 4611686018427387904) (<= (s_off s) 4611686018427387904) (=> (= (s_arr s) nil) (= (s_cap s) 0))))\n")
	} else {
		b.WriteString("(define-fun slice_ok ((s Slice)) Bool (and (bvsge (s_off s) (_ bv0 64)) (bvsge (s_len s) (_ bv0 64)) (bvsge (s_cap s) (s_len s)) (bvslt (s_cap s) (_ bv4294967296 64)) (bvslt (s_off s) (_ bv4294967296 64)) (=> (= (s_arr s) nil) (= (s_cap s) (_ bv0 64)))))\n")
	}
	for _, d := range q.sortDecls {
		b.WriteString(d)
		b.WriteString("\n")
	}
	return b.String()
}

// stringFacts: literal constants are pairwise distinct with known lengths.
func (q *Q) stringFacts() string {
	var b strings.Builder
	for _, s := range q.strOrder {
		c := q.strLits[s]
		b.WriteString(fmt.Sprintf("(declare-const %s Str)\n(assert (= (strlen %s) %s))\n", c, c, q.intLit(int64(len(s)), nil)))
	}
	if len(q.strOrder) > 1 {
		var names []string
		for _, s := range q.strOrder {
			names = append(names, q.strLits[s])
		}
		b.WriteString("(assert (distinct " + strings.Join(names, " ") + "))\n")
	}
	return b.String()
}

func (q *Q) heapDecls() string {
	var names []string
	for n := range q.heaps {
		names = append(names, n)
	}
	sort.Strings(names)
	var b strings.Builder
	for _, n := range names {
		b.WriteString(fmt.Sprintf("(declare-const %s %s)\n", n, q.heaps[n]))
	}
	return b.String()
}

// query assembles a full SMT-LIB script for a goal checked after the first k body commands.
func (q *Q) query(k int, extraAssumps []string, negGoal string, getValues []string) string {
	var b strings.Builder
	b.WriteString(q.prelude())
	b.WriteString(q.stringFacts())
	b.WriteString(q.heapDecls())
	for _, d := range q.constArrs {
		b.WriteString(d)
		b.WriteString("\n")
	}
	for _, d := range q.decls {
		b.WriteString(d)
		b.WriteString("\n")
	}
	for _, c := range q.body[:k] {
		b.WriteString(c)
		b.WriteString("\n")
	}
	for _, a := range extraAssumps {
		b.WriteString("(assert " + a + ")\n")
	}
	b.WriteString("(assert " + negGoal + ")\n(check-sat)\n")
	if len(getValues) > 0 {
		b.WriteString("(get-value (" + strings.Join(getValues, " ") + "))\n")
	}
	return b.String()
}

// ---- small term helpers ----

func and(xs ...string) string {
	var ys []string
	for _, x := range xs {
		if x == "true" || x == "" {
			continue
		}
		if x == "false" {
			return "false"
		}
		ys = append(ys, x)
	}
	switch len(ys) {
	case 0:
		return "true"
	case 1:
		return ys[0]
	}
	return "(and " + strings.Join(ys, " ") + ")"
}

func or(xs ...string) string {
	var ys []string
	for _, x := range xs {
		if x == "false" || x == "" {
			continue
		}
		if x == "true" {
			return "true"
		}
		ys = append(ys, x)
	}
	switch len(ys) {
	case 0:
		return "false"
	case 1:
		return ys[0]
	}
	return "(or " + strings.Join(ys, " ") + ")"
}

func not(x string) string {
	if x == "true" {
		return "false"
	}
	if x == "false" {
		return "true"
	}
	if strings.HasPrefix(x, "(not ") && strings.HasSuffix(x, ")") && balanced(x[5:len(x)-1]) {
		return x[5 : len(x)-1]
	}
	return "(not " + x + ")"
}

func balanced(s string) bool {
	d := 0
	inBar := false
	for _, c := range s {
		switch {
		case c == '|':
			inBar = !inBar
		case inBar:
		case c == '(':
			d++
		case c == ')':
			d--
			if d < 0 {
				return false
			}
		case c == ' ' && d == 0:
			return false
		}
	}
	return d == 0
}

func implies(a, b string) string {
	if a == "true" {
		return b
	}
	if b == "true" || a == "false" {
		return "true"
	}
	return "(=> " + a + " " + b + ")"
}

func ite(c, a, b string) string {
	if c == "true" {
		return a
	}
	if c == "false" {
		return b
	}
	if a == b {
		return a
	}
	return "(ite " + c + " " + a + " " + b + ")"
}

func eq(a, b string) string {
	if a == b {
		return "true"
	}
	return "(= " + a + " " + b + ")"
}

func sel(arr, idx string) string    { return "(select " + arr + " " + idx + ")" }
func sto(arr, idx, v string) string { return "(store " + arr + " " + idx + " " + v + ")" }

// freshFun declares a new uninterpreted function with a readable unique name.
func (q *Q) freshFun(hint string, args []string, ret string) string {
	hint = mangle(hint)
	q.fresh[hint]++
	name := fmt.Sprintf("|%s!%d|", hint, q.fresh[hint])
	return q.declareFun(name, args, ret)
}
