package main

import (
	"fmt"
	"go/constant"
	"go/types"
	"os"
	"regexp"
	"strconv"
	"strings"

	"golang.org/x/tools/go/ssa"
)

// evalCtx: where a contract expression is evaluated.
var boundVarRe = regexp.MustCompile(`^\|[A-Za-z_0-9]+\?[0-9]+\|$`)

type evalCtx struct {
	env      map[ssa.Value]Val
	st       *State
	old      *State
	loop     *loopInfo
	block    *ssa.BasicBlock
	extra    map[string]Val // explicit bindings: callee params, results, bound variables, guard args
	noLocals bool           // names resolve only through extra / package scope (callee contracts at call sites)
	pkg      *types.Package
	inOld    bool
	depth    int
	at       ssa.Instruction // evaluation point inside block (definitions earlier in the block are visible)
	pats     *[]string       // candidate trigger terms collected while evaluating a quantifier body (slice reads s[i] at a bare bound index)
	patUses  *[]patUse
}

// patUse: a slice read s[i] at a bare bound index i, recorded while a quantifier body is evaluated
type patUse struct{ heap, slice, idx string }

func (c *evalCtx) with(extra map[string]Val) *evalCtx {
	n := *c
	n.extra = map[string]Val{}
	for k, v := range c.extra {
		n.extra[k] = v
	}
	for k, v := range extra {
		n.extra[k] = v
	}
	return &n
}

func (c *evalCtx) state() *State {
	if c.inOld && c.old != nil {
		return c.old
	}
	return c.st
}

var untypedInt = types.Typ[types.UntypedInt]

func (x *FnExec) sortOfVal(v Val) string {
	if v.T == nil {
		return v.Sort
	}
	return x.q.sortOf(v.T)
}

func isBVSort(s string) (int, bool) {
	if strings.HasPrefix(s, "(_ BitVec ") {
		n, err := strconv.Atoi(strings.TrimSuffix(strings.TrimPrefix(s, "(_ BitVec "), ")"))
		return n, err == nil
	}
	return 0, false
}

func (x *FnExec) evalBool(fr *frame, e Expr, c *evalCtx) (string, error) {
	if c.pkg == nil && fr != nil && fr.fn.Pkg != nil {
		c.pkg = fr.fn.Pkg.Pkg
	}
	v, err := x.eval(fr, e, c)
	if err != nil {
		return "", err
	}
	if x.sortOfVal(v) != "Bool" {
		return "", fmt.Errorf("expression %s is not boolean (sort %s)", e, x.sortOfVal(v))
	}
	return v.S, nil
}

func isLit(v Val) bool { return v.T == untypedInt }

// coerce untyped literals to the other operand's sort
func (x *FnExec) coerce(a, b Val) (Val, Val) {
	conv := func(lit, other Val) Val {
		os := x.sortOfVal(other)
		if w, ok := isBVSort(os); ok {
			n, err := strconv.ParseInt(lit.S, 0, 64)
			if err != nil {
				u, _ := strconv.ParseUint(lit.S, 0, 64)
				n = int64(u)
			}
			return Val{S: bvLit128(n, w), T: other.T, Sort: other.Sort}
		}
		if os == "Real" {
			return Val{S: smtInt(lit.S) + ".0", T: other.T, Sort: other.Sort}
		}
		return Val{S: smtInt(lit.S), T: other.T, Sort: other.Sort}
	}
	switch {
	case isLit(a) && !isLit(b):
		return conv(a, b), b
	case isLit(b) && !isLit(a):
		return a, conv(b, a)
	case isLit(a) && isLit(b):
		if x.mode == ModeBV {
			return conv(a, Val{T: types.Typ[types.Int]}), conv(b, Val{T: types.Typ[types.Int]})
		}
		return Val{S: smtInt(a.S), T: types.Typ[types.Int]}, Val{S: smtInt(b.S), T: types.Typ[types.Int]}
	}
	return a, b
}

func smtInt(s string) string {
	n, err := strconv.ParseInt(s, 0, 64)
	if err != nil {
		u, err2 := strconv.ParseUint(s, 0, 64)
		if err2 == nil {
			return fmt.Sprint(u)
		}
		return s
	}
	if n < 0 {
		return fmt.Sprintf("(- %d)", -n)
	}
	return fmt.Sprint(n)
}

func bvLit128(n int64, w int) string {
	if w <= 64 {
		return bvLit(n, w)
	}
	if n >= 0 {
		return fmt.Sprintf("((_ zero_extend %d) %s)", w-64, bvLit(n, 64))
	}
	return fmt.Sprintf("((_ sign_extend %d) %s)", w-64, bvLit(n, 64))
}

func (x *FnExec) fixLit(v Val) Val {
	if isLit(v) {
		if x.mode == ModeBV {
			n, _ := strconv.ParseInt(v.S, 0, 64)
			return Val{S: bvLit(n, 64), T: types.Typ[types.Int]}
		}
		return Val{S: smtInt(v.S), T: types.Typ[types.Int]}
	}
	return v
}

func (x *FnExec) eval(fr *frame, e Expr, c *evalCtx) (Val, error) {
	if c.depth > 60 {
		return Val{}, fmt.Errorf("expression nesting too deep (recursive pure function?)")
	}
	switch e := e.(type) {
	case *EInt:
		return Val{S: e.V, T: untypedInt}, nil
	case *EBool:
		if e.V {
			return Val{S: "true", T: types.Typ[types.Bool]}, nil
		}
		return Val{S: "false", T: types.Typ[types.Bool]}, nil
	case *EStr:
		return Val{S: x.q.strLit(e.V), T: types.Typ[types.String]}, nil
	case *ENil:
		return Val{S: "nil", T: types.Typ[types.UntypedNil]}, nil
	case *EIdent:
		return x.evalIdent(fr, e.Name, c)
	case *EUnary:
		if e.Op == "&" {
			// address of a field reached through a pointer: the same location term a store of that address produces
			sel, ok := e.X.(*ESel)
			if !ok {
				return Val{}, fmt.Errorf("& applies to a field selector (p.f)")
			}
			bv, err := x.eval(fr, sel.X, c)
			if err != nil {
				return Val{}, err
			}
			pt, ok := bv.T.Underlying().(*types.Pointer)
			if !ok {
				return Val{}, fmt.Errorf("&%s: base is not a pointer", e.X)
			}
			stt, ok := pt.Elem().Underlying().(*types.Struct)
			if !ok {
				return Val{}, fmt.Errorf("&%s: base is not a pointer to struct", e.X)
			}
			idx, path := findField(stt, sel.F)
			if idx < 0 || len(path) != 1 {
				return Val{}, fmt.Errorf("&%s: no direct field %s", e.X, sel.F)
			}
			hn, hs, _ := x.fieldHeap(pt.Elem(), idx)
			ft := stt.Field(idx).Type()
			a := &Addr{Root: rootField, Base: bv.S, Heap: hn, HSort: hs, RootT: ft, T: ft}
			return Val{S: x.materialize(Val{T: types.NewPointer(ft), Addr: a}), T: types.NewPointer(ft)}, nil
		}
		v, err := x.eval(fr, e.X, c)
		if err != nil {
			return Val{}, err
		}
		switch e.Op {
		case "*":
			if v.T == nil {
				return Val{}, fmt.Errorf("* of ghost value")
			}
			pt, ok := v.T.Underlying().(*types.Pointer)
			if !ok {
				return Val{}, fmt.Errorf("* of non-pointer %s", v.T)
			}
			switch pt.Elem().Underlying().(type) {
			case *types.Struct, *types.Array:
				return Val{}, fmt.Errorf("* of pointer to %s: select a field instead", pt.Elem())
			}
			hn, hs := x.boxHeap(pt.Elem())
			return Val{S: sel(x.heapGet(c.state(), hn, hs), x.scalar(v)), T: pt.Elem()}, nil
		case "!":
			return Val{S: not(v.S), T: types.Typ[types.Bool]}, nil
		case "-":
			if isLit(v) {
				return Val{S: "-" + v.S, T: untypedInt}, nil
			}
			if _, ok := isBVSort(x.sortOfVal(v)); ok {
				return Val{S: "(bvneg " + v.S + ")", T: v.T, Sort: v.Sort}, nil
			}
			return Val{S: "(- " + v.S + ")", T: v.T, Sort: v.Sort}, nil
		case "^":
			v = x.fixLit(v)
			return Val{S: "(bvnot " + v.S + ")", T: v.T, Sort: v.Sort}, nil
		}
	case *EBinary:
		return x.evalBinary(fr, e, c)
	case *ESel:
		// qualified package member?
		if id, ok := e.X.(*EIdent); ok {
			if _, isVar := x.lookupName(fr, id.Name, c); !isVar {
				if p := x.eng.findPackage(c.pkg, id.Name); p != nil {
					return x.evalPkgMember(p, e.F, c)
				}
			}
		}
		xv, err := x.eval(fr, e.X, c)
		if err != nil {
			return Val{}, err
		}
		return x.evalField(xv, e.F, c)
	case *EIndex:
		xv, err := x.eval(fr, e.X, c)
		if err != nil {
			return Val{}, err
		}
		iv, err := x.eval(fr, e.I, c)
		if err != nil {
			return Val{}, err
		}
		return x.evalIndex(xv, iv, c)
	case *ESliceE:
		xv, err := x.eval(fr, e.X, c)
		if err != nil {
			return Val{}, err
		}
		lo, hi := Val{S: "0", T: untypedInt}, Val{}
		if e.Lo != nil {
			if lo, err = x.eval(fr, e.Lo, c); err != nil {
				return Val{}, err
			}
		}
		if e.Hi != nil {
			if hi, err = x.eval(fr, e.Hi, c); err != nil {
				return Val{}, err
			}
		}
		lo = x.fixLit(lo)
		if x.sortOfVal(xv) == "Slice" {
			h := "(s_len " + xv.S + ")"
			if e.Hi != nil {
				h = x.fixLit(hi).S
			}
			I := types.Typ[types.Int]
			return Val{S: fmt.Sprintf("(mkslice (s_arr %s) %s %s %s)", xv.S, x.arith("+", "(s_off "+xv.S+")", lo.S, I), x.arith("-", h, lo.S, I), x.arith("-", "(s_cap "+xv.S+")", lo.S, I)), T: xv.T}, nil
		}
		return Val{}, fmt.Errorf("slice expression on %s", x.sortOfVal(xv))
	case *ECall:
		return x.evalCall(fr, e, c)
	case *EQuant:
		if len(e.Vars) > 0 && e.Vars[0].Type.Kind == "range" {
			// syntactic expansion of the first binder
			var lo, hi int
			fmt.Sscanf(e.Vars[0].Type.Name, "%d:%d", &lo, &hi)
			rest := &EQuant{Forall: e.Forall, Vars: e.Vars[1:], Body: e.Body}
			var parts []string
			for i := lo; i <= hi; i++ {
				nc := c.with(map[string]Val{e.Vars[0].Name: {S: fmt.Sprint(i), T: untypedInt}})
				nc.depth = c.depth + 1
				var v Val
				var err error
				if len(rest.Vars) == 0 {
					v, err = x.eval(fr, e.Body, nc)
				} else {
					v, err = x.eval(fr, rest, nc)
				}
				if err != nil {
					return Val{}, err
				}
				parts = append(parts, v.S)
			}
			if e.Forall {
				return Val{S: and(parts...), T: types.Typ[types.Bool]}, nil
			}
			return Val{S: or(parts...), T: types.Typ[types.Bool]}, nil
		}
		extra := map[string]Val{}
		var binders []string
		var guards []string
		for _, b := range e.Vars {
			t, srt, err := x.eng.resolveType(x, c.pkg, b.Type)
			if err != nil {
				return Val{}, err
			}
			x.q.fresh["qv_"+b.Name]++
			sym := fmt.Sprintf("|%s?%d|", b.Name, x.q.fresh["qv_"+b.Name])
			binders = append(binders, fmt.Sprintf("(%s %s)", sym, srt))
			extra[b.Name] = Val{S: sym, T: t, Sort: srt}
			if t != nil {
				if f := x.validFact(sym, t, 0); f != "true" {
					guards = append(guards, f)
				}
			}
		}
		nc := c.with(extra)
		nc.depth = c.depth + 1
		var pats []string
		var uses []patUse
		nc.pats = &pats
		nc.patUses = &uses
		body, err := x.eval(fr, e.Body, nc)
		if err != nil {
			return Val{}, err
		}
		if x.sortOfVal(body) != "Bool" {
			return Val{}, fmt.Errorf("quantifier body not boolean")
		}
		b := body.S
		g := and(guards...)
		if e.Forall {
			b = implies(g, b)
			// A single integer binder i used as the bare index of ONE slice s: quantify over the absolute position
			// j = s_off(s)+i instead and trigger on (select array j). Index arithmetic inside a trigger does not survive the
			// solvers' normalisation of sums, an absolute position does.
			if len(e.Vars) == 1 && x.q.mode != ModeBV && os.Getenv("TVC_NO_AUTOPAT") == "" && extra[e.Vars[0].Name].Sort == x.q.intSort() {
				sym := extra[e.Vars[0].Name].S
				slices := map[string]bool{}
				for _, u := range uses {
					if u.idx == sym {
						slices[u.slice] = true
					}
				}
				if len(slices) == 1 {
					var sl string
					for k := range slices {
						sl = k
					}
					x.q.fresh["qv_abs"]++
					j := fmt.Sprintf("|j?abs%d|", x.q.fresh["qv_abs"])
					rel := fmt.Sprintf("(- %s (s_off %s))", j, sl)
					ex2 := map[string]Val{e.Vars[0].Name: {S: rel, T: extra[e.Vars[0].Name].T, Sort: x.q.intSort()}}
					nc2 := c.with(ex2)
					nc2.depth = c.depth + 1
					body2, err2 := x.eval(fr, e.Body, nc2)
					if err2 == nil {
						g2 := "true"
						if t := extra[e.Vars[0].Name].T; t != nil {
							g2 = x.validFact(rel, t, 0)
						}
						seenP := map[string]bool{}
						ps := ""
						for _, u := range uses {
							if u.idx != sym {
								continue
							}
							pt := sel(sel(u.heap, "(s_arr "+u.slice+")"), j)
							if !seenP[pt] && len(seenP) < 3 {
								seenP[pt] = true
								ps += " :pattern (" + pt + ")"
							}
						}
						return Val{S: fmt.Sprintf("(forall ((%s %s)) (! %s%s))", j, x.q.intSort(), implies(g2, body2.S), ps), T: types.Typ[types.Bool]}, nil
					}
				}
			}
			return Val{S: fmt.Sprintf("(forall (%s) %s)", strings.Join(binders, " "), b), T: types.Typ[types.Bool]}, nil
		}
		b = and(g, b)
		// same rewriting for an existential (as a goal it is refuted as a universal, which needs the same trigger) — only in
		// functions whose contract asks for it (`expat`): elsewhere the extra trigger made proofs that went through slower
		if len(e.Vars) == 1 && x.q.mode != ModeBV && os.Getenv("TVC_NO_AUTOPAT") == "" && x.topSpec != nil && x.topSpec.ExPat && extra[e.Vars[0].Name].Sort == x.q.intSort() {
			sym := extra[e.Vars[0].Name].S
			slices := map[string]bool{}
			for _, u := range uses {
				if u.idx == sym {
					slices[u.slice] = true
				}
			}
			if len(slices) == 1 {
				var sl string
				for k := range slices {
					sl = k
				}
				x.q.fresh["qv_abs"]++
				j := fmt.Sprintf("|j?abs%d|", x.q.fresh["qv_abs"])
				rel := fmt.Sprintf("(- %s (s_off %s))", j, sl)
				ex2 := map[string]Val{e.Vars[0].Name: {S: rel, T: extra[e.Vars[0].Name].T, Sort: x.q.intSort()}}
				nc2 := c.with(ex2)
				nc2.depth = c.depth + 1
				body2, err2 := x.eval(fr, e.Body, nc2)
				if err2 == nil {
					g2 := "true"
					if t := extra[e.Vars[0].Name].T; t != nil {
						g2 = x.validFact(rel, t, 0)
					}
					seenP := map[string]bool{}
					ps := ""
					for _, u := range uses {
						if u.idx != sym {
							continue
						}
						pt := sel(sel(u.heap, "(s_arr "+u.slice+")"), j)
						if !seenP[pt] && len(seenP) < 3 {
							seenP[pt] = true
							ps += " :pattern (" + pt + ")"
						}
					}
					// both forms (they are equivalent): the plain one keeps what the solvers found before, the positional one
					// adds the trigger
					return Val{S: fmt.Sprintf("(exists ((%s %s)) (! %s%s))", j, x.q.intSort(), and(g2, body2.S), ps), T: types.Typ[types.Bool]}, nil
				}
			}
		}
		return Val{S: fmt.Sprintf("(exists (%s) %s)", strings.Join(binders, " "), b), T: types.Typ[types.Bool]}, nil
	}
	return Val{}, fmt.Errorf("cannot evaluate %s", e)
}

func (x *FnExec) lookupName(fr *frame, name string, c *evalCtx) (Val, bool) {
	if v, ok := c.extra[name]; ok {
		return v, true
	}
	if c.noLocals || fr == nil {
		return Val{}, false
	}
	// parameters
	for i, p := range fr.fn.Params {
		if p.Name() == name {
			// a reassigned parameter appears as a header phi / debug ref; prefer those inside loops
			if v, ok := x.localByName(fr, name, c); ok {
				return v, true
			}
			return fr.params[i], true
		}
	}
	for i, p := range fr.fn.FreeVars {
		if p.Name() == name {
			v := fr.free[i]
			// free variables are pointers to the captured cell: read it
			if a := x.pointerAddr(v); a != nil {
				return Val{S: x.loadAddr(c.state(), a), T: derefType(p.Type())}, true
			}
			return v, true
		}
	}
	if v, ok := x.localByName(fr, name, c); ok {
		return v, true
	}
	return Val{}, false
}

// localByName resolves a source-level local variable at the evaluation point (loop header or call site).
func (x *FnExec) localByName(fr *frame, name string, c *evalCtx) (Val, bool) {
	if c.block == nil {
		return Val{}, false
	}
	// rangeindexN: the hidden index of range loop N (an enclosing loop, addressed from an inner loop's invariant)
	if strings.HasPrefix(name, "rangeindex") && len(name) > len("rangeindex") {
		if n, err := strconv.Atoi(name[len("rangeindex"):]); err == nil {
			for _, li := range fr.loops {
				if li.ordinal != n {
					continue
				}
				for _, in := range li.header.Instrs {
					p, ok := in.(*ssa.Phi)
					if !ok {
						break
					}
					if p.Comment == "rangeindex" {
						if v, ok := c.env[p]; ok {
							return v, true
						}
					}
				}
			}
			return Val{}, false
		}
	}
	// 1. phi in the evaluation block named after the variable
	for _, in := range c.block.Instrs {
		p, ok := in.(*ssa.Phi)
		if !ok {
			break
		}
		if p.Comment == name {
			if v, ok := c.env[p]; ok {
				return v, true
			}
		}
	}
	// 2. latest debug ref in dominating blocks (walk idom chain from block upward; within a block, last wins)
	var found ssa.Value
	var isAddr bool
	for b := c.block; b != nil && found == nil; b = b.Idom() {
		for i := len(b.Instrs) - 1; i >= 0; i-- {
			switch d := b.Instrs[i].(type) {
			case *ssa.DebugRef:
				if b == c.block {
					// block-entry evaluation sees nothing of the block; a call-site evaluation sees what precedes the call
					if c.at == nil || c.at.Block() != b || !precedes(b, d, c.at) {
						continue
					}
				}
				if obj := d.Object(); obj != nil && obj.Name() == name {
					if _, isVar := obj.(*types.Var); isVar {
						if _, inEnv := c.env[d.X]; inEnv || isConstOrParam(d.X) {
							found, isAddr = d.X, d.IsAddr
						}
					}
				}
			case *ssa.Phi:
				if d.Comment == name {
					if _, inEnv := c.env[d]; inEnv {
						found = d
					}
				}
			}
			if found != nil {
				break
			}
		}
	}
	if found == nil {
		if os.Getenv("TVC_DEBUG_NAMES") != "" {
			fmt.Fprintf(os.Stderr, "localByName(%s): not found; block=%d at=%v\n", name, c.block.Index, c.at)
			for _, in := range c.block.Instrs {
				if d, ok := in.(*ssa.DebugRef); ok && d.Object() != nil && d.Object().Name() == name {
					_, inEnv := c.env[d.X]
					fmt.Fprintf(os.Stderr, "   debugref X=%s inEnv=%v isAddr=%v precedes=%v\n", d.X.Name(), inEnv, d.IsAddr, c.at != nil && precedes(c.block, d, c.at))
				}
			}
		}
		return Val{}, false
	}
	v := x.value(fr, c.env, found)
	if isAddr {
		if a := x.pointerAddr(v); a != nil {
			return Val{S: x.loadAddr(c.state(), a), T: a.T}, true
		}
	}
	return v, true
}

func isConstOrParam(v ssa.Value) bool {
	switch v.(type) {
	case *ssa.Const, *ssa.Parameter, *ssa.Global, *ssa.FreeVar:
		return true
	}
	return false
}

func (x *FnExec) evalIdent(fr *frame, name string, c *evalCtx) (Val, error) {
	if v, ok := x.lookupName(fr, name, c); ok {
		if v.Addr != nil {
			// address-valued (e.g. global): read it
			return Val{S: x.loadAddr(c.state(), v.Addr), T: v.Addr.T}, nil
		}
		return v, nil
	}
	if name == "JsonOf" {
		x.q.declareSortOnce("Blob")
		return Val{S: x.heapGet(c.state(), "|JsonOf|", "(Array Ref Blob)"), Sort: "(Array Ref Blob)"}, nil
	}
	// ghost variable
	if gv, ok := x.eng.specs.Ghosts[name]; ok {
		return x.ghostGet(c.state(), gv, c)
	}
	// zero-arg pure func / constant macro
	if pf, ok := x.eng.specs.Pure[name]; ok && len(pf.Params) == 0 && pf.Body != nil {
		nc := *c
		nc.depth++
		return x.eval(fr, pf.Body, &nc)
	}
	// package-level
	if c.pkg != nil {
		if v, err := x.evalPkgMember(c.pkg, name, c); err == nil {
			return v, nil
		}
	}
	return Val{}, fmt.Errorf("unresolved name %q", name)
}

func (x *FnExec) ghostGet(st *State, gv *GhostVar, c *evalCtx) (Val, error) {
	t, srt, err := x.eng.resolveType(x, c.pkg, gv.Type)
	if err != nil {
		return Val{}, err
	}
	key := "$ghost:" + gv.Name
	stateVarSorts[key] = srt
	cur, ok := st.heap[key]
	if !ok {
		name := "|ghost0_" + gv.Name + "|"
		x.q.declare(name, srt)
		cur = name
		st.heap[key] = cur
	}
	return Val{S: cur, T: t, Sort: srt}, nil
}

func (x *FnExec) evalPkgMember(p *types.Package, name string, c *evalCtx) (Val, error) {
	obj := p.Scope().Lookup(name)
	if obj == nil {
		return Val{}, fmt.Errorf("no %s.%s", p.Name(), name)
	}
	switch o := obj.(type) {
	case *types.Const:
		return x.constFromValue(o.Val(), o.Type()), nil
	case *types.Var:
		sp := x.eng.prog.SSA.Package(p)
		if sp == nil {
			return Val{}, fmt.Errorf("no ssa package %s", p.Path())
		}
		g, ok := sp.Members[name].(*ssa.Global)
		if !ok {
			return Val{}, fmt.Errorf("%s.%s is not a global", p.Name(), name)
		}
		n, s := x.globalHeap(g)
		return Val{S: x.heapGet(c.state(), n, s), T: o.Type()}, nil
	}
	return Val{}, fmt.Errorf("%s.%s is not a constant or variable", p.Name(), name)
}

func (x *FnExec) constFromValue(v constant.Value, t types.Type) Val {
	return x.constVal(ssa.NewConst(v, t))
}

func (x *FnExec) evalField(xv Val, f string, c *evalCtx) (Val, error) {
	if xv.T == nil {
		return Val{}, fmt.Errorf("field %s of ghost value", f)
	}
	t := xv.T
	st := c.state()
	if pt, ok := t.Underlying().(*types.Pointer); ok {
		stt, ok := pt.Elem().Underlying().(*types.Struct)
		if !ok {
			return Val{}, fmt.Errorf("field %s of pointer to non-struct %s", f, t)
		}
		idx, path := findField(stt, f)
		if idx < 0 {
			return Val{}, fmt.Errorf("no field %s in %s", f, pt.Elem())
		}
		// path through embedded structs
		cur := Val{S: xv.S, T: t}
		curT := pt.Elem()
		var term string
		first := true
		for _, fi := range path {
			cs := curT.Underlying().(*types.Struct)
			ft := cs.Field(fi).Type()
			if first {
				hn, hs, _ := x.fieldHeap(curT, fi)
				term = sel(x.heapGet(st, hn, hs), cur.S)
				first = false
			} else {
				term = x.q.structGet(curT, term, fi)
			}
			// embedded pointer: hop
			if ept, ok := ft.Underlying().(*types.Pointer); ok && fi != path[len(path)-1] {
				cur = Val{S: term, T: ft}
				curT = ept.Elem()
				first = true
				continue
			}
			curT = ft
		}
		return Val{S: term, T: curT}, nil
	}
	if stt, ok := t.Underlying().(*types.Struct); ok {
		idx, path := findField(stt, f)
		if idx < 0 {
			return Val{}, fmt.Errorf("no field %s in %s", f, t)
		}
		term := xv.S
		curT := t
		for _, fi := range path {
			cs := curT.Underlying().(*types.Struct)
			term = x.q.structGet(curT, term, fi)
			curT = cs.Field(fi).Type()
			if ept, ok := curT.Underlying().(*types.Pointer); ok && fi != path[len(path)-1] {
				return x.evalField(Val{S: term, T: curT}, f, c)
				_ = ept
			}
		}
		return Val{S: term, T: curT}, nil
	}
	return Val{}, fmt.Errorf("field %s of non-struct %s", f, t)
}

// findField: index path to a (possibly promoted) field
func findField(st *types.Struct, name string) (int, []int) {
	for i := 0; i < st.NumFields(); i++ {
		if st.Field(i).Name() == name {
			return i, []int{i}
		}
	}
	for i := 0; i < st.NumFields(); i++ {
		f := st.Field(i)
		if !f.Embedded() {
			continue
		}
		et := f.Type()
		if p, ok := et.Underlying().(*types.Pointer); ok {
			et = p.Elem()
		}
		if es, ok := et.Underlying().(*types.Struct); ok {
			if j, path := findField(es, name); j >= 0 {
				return i, append([]int{i}, path...)
			}
		}
	}
	return -1, nil
}

func (x *FnExec) evalIndex(xv, iv Val, c *evalCtx) (Val, error) {
	st := c.state()
	if xv.T == nil {
		// ghost array
		if strings.HasPrefix(xv.Sort, "(Array ") {
			iv = x.fixLit(iv)
			return Val{S: sel(xv.S, iv.S), Sort: arrayElemSort(xv.Sort)}, nil
		}
		return Val{}, fmt.Errorf("index of ghost non-array")
	}
	switch t := xv.T.Underlying().(type) {
	case *types.Slice:
		iv = x.fixLit(iv)
		hn, hs := x.elemHeap(t.Elem())
		idx := x.arith("+", "(s_off "+xv.S+")", x.toInt(iv), types.Typ[types.Int])
		term := sel(sel(x.heapGet(st, hn, hs), "(s_arr "+xv.S+")"), idx)
		if c.pats != nil && boundVarRe.MatchString(iv.S) && !strings.Contains(xv.S, iv.S) {
			*c.pats = append(*c.pats, term)
			if c.patUses != nil {
				*c.patUses = append(*c.patUses, patUse{heap: x.heapGet(st, hn, hs), slice: xv.S, idx: iv.S})
			}
		}
		return Val{S: term, T: t.Elem()}, nil
	case *types.Array:
		iv = x.fixLit(iv)
		return Val{S: sel(xv.S, x.toInt(iv)), T: t.Elem()}, nil
	case *types.Map:
		return Val{S: x.mapGet(st, t, xv.S, iv.S), T: t.Elem()}, nil
	case *types.Basic:
		if isString(xv.T) {
			iv = x.fixLit(iv)
			return Val{S: fmt.Sprintf("(str_at %s %s)", xv.S, iv.S), T: types.Typ[types.Uint8]}, nil
		}
	case *types.Pointer:
		if at, ok := t.Elem().Underlying().(*types.Array); ok {
			iv = x.fixLit(iv)
			hn, hs := x.elemHeap(at.Elem())
			return Val{S: sel(sel(x.heapGet(st, hn, hs), xv.S), x.toInt(iv)), T: at.Elem()}, nil
		}
	}
	return Val{}, fmt.Errorf("cannot index %s", xv.T)
}

func arrayElemSort(s string) string {
	// "(Array K V)" -> V  (K is a simple or parenthesised sort)
	inner := strings.TrimSuffix(strings.TrimPrefix(s, "(Array "), ")")
	depth := 0
	for i, ch := range inner {
		switch ch {
		case '(':
			depth++
		case ')':
			depth--
		case ' ':
			if depth == 0 {
				return inner[i+1:]
			}
		}
	}
	return inner
}

func (x *FnExec) evalBinary(fr *frame, e *EBinary, c *evalCtx) (Val, error) {
	B := types.Typ[types.Bool]
	switch e.Op {
	case "&&", "||", "==>", "<==>":
		a, err := x.evalBool(fr, e.X, c)
		if err != nil {
			return Val{}, err
		}
		b, err := x.evalBool(fr, e.Y, c)
		if err != nil {
			return Val{}, err
		}
		switch e.Op {
		case "&&":
			return Val{S: and(a, b), T: B}, nil
		case "||":
			return Val{S: or(a, b), T: B}, nil
		case "==>":
			return Val{S: implies(a, b), T: B}, nil
		default:
			return Val{S: eq(a, b), T: B}, nil
		}
	case "in":
		k, err := x.eval(fr, e.X, c)
		if err != nil {
			return Val{}, err
		}
		m, err := x.eval(fr, e.Y, c)
		if err != nil {
			return Val{}, err
		}
		if m.T != nil {
			if mt, ok := m.T.Underlying().(*types.Map); ok {
				return Val{S: x.mapHas(c.state(), mt, m.S, k.S), T: B}, nil
			}
		}
		if m.T == nil && strings.HasPrefix(m.Sort, "(Array ") {
			return Val{S: sel(m.S, k.S), T: B}, nil
		}
		return Val{}, fmt.Errorf("'in' needs a map or ghost set")
	}
	a, err := x.eval(fr, e.X, c)
	if err != nil {
		return Val{}, err
	}
	b, err := x.eval(fr, e.Y, c)
	if err != nil {
		return Val{}, err
	}
	// nil adaptation
	adaptNil := func(n, o Val) Val {
		switch x.sortOfVal(o) {
		case "Iface":
			return Val{S: "inil", T: o.T}
		case "Slice":
			return Val{S: "nil", T: types.Typ[types.UntypedNil], Sort: "slice-nil"}
		}
		return Val{S: "nil", T: o.T}
	}
	if a.T == types.Typ[types.UntypedNil] && a.Sort == "" {
		a = adaptNil(a, b)
	}
	if b.T == types.Typ[types.UntypedNil] && b.Sort == "" {
		b = adaptNil(b, a)
	}
	a, b = x.coerce(a, b)
	sa, sb := x.sortOfVal(a), x.sortOfVal(b)
	switch e.Op {
	case "==", "!=":
		var r string
		switch {
		case a.Sort == "slice-nil":
			r = eq("(s_arr "+b.S+")", "nil")
		case b.Sort == "slice-nil":
			r = eq("(s_arr "+a.S+")", "nil")
		default:
			if sa != sb {
				return Val{}, fmt.Errorf("comparing %s with %s in %s", sa, sb, e)
			}
			r = eq(a.S, b.S)
		}
		if e.Op == "!=" {
			r = not(r)
		}
		return Val{S: r, T: B}, nil
	case "<", "<=", ">", ">=":
		if sa != sb {
			return Val{}, fmt.Errorf("comparing %s with %s in %s", sa, sb, e)
		}
		if _, ok := isBVSort(sa); ok {
			uns := (a.T == nil || isUnsigned(a.T)) && (b.T == nil || isUnsigned(b.T))
			m := map[string][2]string{"<": {"bvslt", "bvult"}, "<=": {"bvsle", "bvule"}, ">": {"bvsgt", "bvugt"}, ">=": {"bvsge", "bvuge"}}[e.Op]
			op := m[0]
			if uns {
				op = m[1]
			}
			return Val{S: fmt.Sprintf("(%s %s %s)", op, a.S, b.S), T: B}, nil
		}
		if sa == "Str" {
			switch e.Op {
			case "<":
				return Val{S: fmt.Sprintf("(str_lt %s %s)", a.S, b.S), T: B}, nil
			case ">":
				return Val{S: fmt.Sprintf("(str_lt %s %s)", b.S, a.S), T: B}, nil
			case "<=":
				return Val{S: fmt.Sprintf("(not (str_lt %s %s))", b.S, a.S), T: B}, nil
			default:
				return Val{S: fmt.Sprintf("(not (str_lt %s %s))", a.S, b.S), T: B}, nil
			}
		}
		return Val{S: fmt.Sprintf("(%s %s %s)", e.Op, a.S, b.S), T: B}, nil
	case "+", "-", "*", "/", "%", "&", "|", "^", "<<", ">>":
		rt, rs := a.T, a.Sort
		if sa != sb {
			// mixed Int/Real: promote
			if sa == "Real" && sb == "Int" {
				b = Val{S: "(to_real " + b.S + ")", T: a.T, Sort: a.Sort}
			} else if sa == "Int" && sb == "Real" {
				a = Val{S: "(to_real " + a.S + ")", T: b.T, Sort: b.Sort}
				rt, rs = b.T, b.Sort
				sa = "Real"
			} else {
				return Val{}, fmt.Errorf("operands of %s have sorts %s and %s in %s", e.Op, sa, sb, e)
			}
		}
		if _, ok := isBVSort(sa); ok {
			uns := a.T == nil || isUnsigned(a.T)
			op := map[string]string{"+": "bvadd", "-": "bvsub", "*": "bvmul", "&": "bvand", "|": "bvor", "^": "bvxor", "<<": "bvshl"}[e.Op]
			switch e.Op {
			case "/":
				op = "bvsdiv"
				if uns {
					op = "bvudiv"
				}
			case "%":
				op = "bvsrem"
				if uns {
					op = "bvurem"
				}
			case ">>":
				op = "bvashr"
				if uns {
					op = "bvlshr"
				}
			}
			return Val{S: fmt.Sprintf("(%s %s %s)", op, a.S, b.S), T: rt, Sort: rs}, nil
		}
		switch e.Op {
		case "+", "-", "*":
			return Val{S: fmt.Sprintf("(%s %s %s)", e.Op, a.S, b.S), T: rt, Sort: rs}, nil
		case "/":
			if sa == "Real" {
				return Val{S: fmt.Sprintf("(/ %s %s)", a.S, b.S), T: rt, Sort: rs}, nil
			}
			return Val{S: fmt.Sprintf("(tdiv %s %s)", a.S, b.S), T: rt, Sort: rs}, nil
		case "%":
			return Val{S: fmt.Sprintf("(tmod %s %s)", a.S, b.S), T: rt, Sort: rs}, nil
		}
		return Val{}, fmt.Errorf("operator %s needs bit-vector mode", e.Op)
	}
	return Val{}, fmt.Errorf("unknown operator %s", e.Op)
}

var castBits = map[string]struct {
	bits   int
	signed bool
	t      types.Type
}{
	"int8": {8, true, types.Typ[types.Int8]}, "uint8": {8, false, types.Typ[types.Uint8]}, "byte": {8, false, types.Typ[types.Uint8]},
	"int16": {16, true, types.Typ[types.Int16]}, "uint16": {16, false, types.Typ[types.Uint16]},
	"int32": {32, true, types.Typ[types.Int32]}, "uint32": {32, false, types.Typ[types.Uint32]},
	"int64": {64, true, types.Typ[types.Int64]}, "uint64": {64, false, types.Typ[types.Uint64]},
	"int": {64, true, types.Typ[types.Int]}, "uint": {64, false, types.Typ[types.Uint]},
}

func (x *FnExec) evalCall(fr *frame, e *ECall, c *evalCtx) (Val, error) {
	B := types.Typ[types.Bool]
	I := types.Typ[types.Int]
	arg := func(i int) (Val, error) {
		if i >= len(e.Args) {
			return Val{}, fmt.Errorf("%s: missing argument %d", e.Fun, i)
		}
		return x.eval(fr, e.Args[i], c)
	}
	switch e.Fun {
	case "old":
		nc := *c
		nc.inOld = true
		return x.eval(fr, e.Args[0], &nc)
	case "entry":
		// entry(p): the value parameter p had when the function was entered (parameters may be reassigned)
		if id, ok := e.Args[0].(*EIdent); ok && fr != nil {
			for i, p := range fr.fn.Params {
				if p.Name() == id.Name {
					return fr.params[i], nil
				}
			}
		}
		return Val{}, fmt.Errorf("entry(): not a parameter")
	case "len", "cap":
		v, err := arg(0)
		if err != nil {
			return Val{}, err
		}
		switch x.sortOfVal(v) {
		case "Slice":
			return Val{S: "(s_" + e.Fun + " " + v.S + ")", T: I}, nil
		case "Str":
			return Val{S: "(strlen " + v.S + ")", T: I}, nil
		}
		if v.T != nil {
			if mt, ok := v.T.Underlying().(*types.Map); ok {
				return Val{S: x.mapLen(c.state(), mt, v.S), T: I}, nil
			}
			if at, ok := v.T.Underlying().(*types.Array); ok {
				return Val{S: x.q.intLit(at.Len(), nil), T: I}, nil
			}
		}
		return Val{}, fmt.Errorf("len of %s", x.sortOfVal(v))
	case "ite":
		cnd, err := x.evalBool(fr, e.Args[0], c)
		if err != nil {
			return Val{}, err
		}
		a, err := arg(1)
		if err != nil {
			return Val{}, err
		}
		b, err := arg(2)
		if err != nil {
			return Val{}, err
		}
		a, b = x.coerce(a, b)
		return Val{S: ite(cnd, a.S, b.S), T: a.T, Sort: a.Sort}, nil
	case "seen":
		// seen(k): key k already visited by the current loop's map iterator
		k, err := arg(0)
		if err != nil {
			return Val{}, err
		}
		if c.loop == nil {
			return Val{}, fmt.Errorf("seen() outside a loop invariant")
		}
		for _, in := range c.loop.header.Instrs {
			if nx, ok := in.(*ssa.Next); ok {
				if r, ok := nx.Iter.(*ssa.Range); ok {
					key := iterKey(r)
					vis, has := c.state().heap[key]
					if !has || vis == "" {
						return Val{}, fmt.Errorf("iterator state unavailable")
					}
					return Val{S: sel(vis, k.S), T: B}, nil
				}
			}
		}
		return Val{}, fmt.Errorf("seen(): loop has no map iterator")
	case "min", "max":
		a, err := arg(0)
		if err != nil {
			return Val{}, err
		}
		b, err := arg(1)
		if err != nil {
			return Val{}, err
		}
		a, b = x.coerce(a, b)
		op := "<="
		if e.Fun == "max" {
			op = ">="
		}
		return Val{S: ite(x.cmp(op, a.S, b.S, a.T), a.S, b.S), T: a.T, Sort: a.Sort}, nil
	case "fresh":
		v, err := arg(0)
		if err != nil {
			return Val{}, err
		}
		if c.old == nil {
			return Val{}, fmt.Errorf("fresh() needs an old state")
		}
		al := x.heapGet(c.old, "$alloc", "(Array Ref Bool)")
		return Val{S: and(not(eq(v.S, "nil")), not(sel(al, v.S))), T: B}, nil
	case "allocated":
		// allocated(p): p is nil or an object that exists in the current state (so it differs from anything allocated later)
		v, err := arg(0)
		if err != nil {
			return Val{}, err
		}
		al := x.heapGet(c.state(), "$alloc", "(Array Ref Bool)")
		return Val{S: or(eq(v.S, "nil"), sel(al, x.scalar(v))), T: B}, nil
	case "typeis":
		// typeis(x, T): dynamic type of interface value x is T
		v, err := arg(0)
		if err != nil {
			return Val{}, err
		}
		id, ok := e.Args[1].(*EIdent)
		var tn string
		if ok {
			tn = id.Name
		} else if s, ok := e.Args[1].(*ESel); ok {
			tn = s.String()
		}
		t, _, err := x.eng.resolveType(x, c.pkg, TypeExpr{Kind: "name", Name: tn})
		if err != nil {
			return Val{}, err
		}
		return Val{S: and(not(eq(v.S, "inil")), eq("(itag "+v.S+")", fmt.Sprint(x.q.typeID(t)))), T: B}, nil
	case "isptr", "asptr":
		// isptr(x, T): the interface value x holds a *T;  asptr(x, T): that *T (meaningful only where isptr holds)
		v, err := arg(0)
		if err != nil {
			return Val{}, err
		}
		var tn string
		if id, ok := e.Args[1].(*EIdent); ok {
			tn = id.Name
		} else if s, ok := e.Args[1].(*ESel); ok {
			tn = s.String()
		}
		t, _, err := x.eng.resolveType(x, c.pkg, TypeExpr{Kind: "name", Name: tn})
		if err != nil {
			return Val{}, err
		}
		pt := types.NewPointer(t)
		if e.Fun == "isptr" {
			return Val{S: and(not(eq(v.S, "inil")), eq("(itag "+v.S+")", fmt.Sprint(x.q.typeID(pt)))), T: B}, nil
		}
		_, unbox := x.q.boxFn(pt)
		return Val{S: fmt.Sprintf("(%s %s)", unbox, v.S), T: pt}, nil
	case "arr", "off":
		v, err := arg(0)
		if err != nil {
			return Val{}, err
		}
		if e.Fun == "arr" {
			return Val{S: "(s_arr " + v.S + ")", T: types.Typ[types.UnsafePointer]}, nil
		}
		return Val{S: "(s_off " + v.S + ")", T: I}, nil
	case "real":
		v, err := arg(0)
		if err != nil {
			return Val{}, err
		}
		v = x.fixLit(v)
		if x.sortOfVal(v) == "Real" {
			return v, nil
		}
		return Val{S: "(to_real " + v.S + ")", T: types.Typ[types.Float64]}, nil
	case "floor":
		v, err := arg(0)
		if err != nil {
			return Val{}, err
		}
		return Val{S: "(to_int " + v.S + ")", T: I}, nil
	}
	// integer casts (bit-vector mode: resize; int mode: identity)
	if cb, ok := castBits[e.Fun]; ok && len(e.Args) == 1 {
		v, err := arg(0)
		if err != nil {
			return Val{}, err
		}
		if isLit(v) {
			if x.mode == ModeBV {
				n, _ := strconv.ParseInt(v.S, 0, 64)
				return Val{S: bvLit(n, cb.bits), T: cb.t}, nil
			}
			return Val{S: smtInt(v.S), T: cb.t}, nil
		}
		if w, isbv := isBVSort(x.sortOfVal(v)); isbv {
			switch {
			case w == cb.bits:
				return Val{S: v.S, T: cb.t}, nil
			case w > cb.bits:
				return Val{S: fmt.Sprintf("((_ extract %d 0) %s)", cb.bits-1, v.S), T: cb.t}, nil
			case v.T != nil && !isUnsigned(v.T):
				return Val{S: fmt.Sprintf("((_ sign_extend %d) %s)", cb.bits-w, v.S), T: cb.t}, nil
			default:
				return Val{S: fmt.Sprintf("((_ zero_extend %d) %s)", cb.bits-w, v.S), T: cb.t}, nil
			}
		}
		return Val{S: v.S, T: cb.t}, nil
	}
	if strings.HasPrefix(e.Fun, "bv") && len(e.Args) == 1 {
		if w, err := strconv.Atoi(e.Fun[2:]); err == nil {
			v, err := arg(0)
			if err != nil {
				return Val{}, err
			}
			srt := fmt.Sprintf("(_ BitVec %d)", w)
			if isLit(v) {
				n, _ := strconv.ParseInt(v.S, 0, 64)
				return Val{S: bvLit128(n, w), Sort: srt}, nil
			}
			vw, ok := isBVSort(x.sortOfVal(v))
			if !ok {
				return Val{}, fmt.Errorf("%s of non-bitvector", e.Fun)
			}
			switch {
			case vw == w:
				return Val{S: v.S, Sort: srt}, nil
			case vw > w:
				return Val{S: fmt.Sprintf("((_ extract %d 0) %s)", w-1, v.S), Sort: srt}, nil
			default:
				return Val{S: fmt.Sprintf("((_ zero_extend %d) %s)", w-vw, v.S), Sort: srt}, nil
			}
		}
	}
	// pure functions
	if pf, ok := x.eng.specs.Pure[e.Fun]; ok {
		if pf.Axiom && c.loop == nil && c.at == nil {
			return Val{}, fmt.Errorf("axiom %s may only be instantiated through a `use` clause", pf.Name)
		}
		if len(e.Args) != len(pf.Params) {
			return Val{}, fmt.Errorf("%s: expected %d arguments", e.Fun, len(pf.Params))
		}
		var args []Val
		for i := range e.Args {
			v, err := arg(i)
			if err != nil {
				return Val{}, err
			}
			pt, psrt, err := x.eng.resolveTypeIn(x, pf.Pkg, c.pkg, pf.Params[i].Type)
			if err != nil {
				return Val{}, fmt.Errorf("%s: %v", e.Fun, err)
			}
			if isLit(v) {
				v, _ = x.coerce(v, Val{T: pt, Sort: psrt})
			}
			if v.T == types.Typ[types.UntypedNil] {
				if psrt == "Iface" {
					v = Val{S: "inil", T: pt}
				} else if psrt == "Slice" {
					v = Val{S: x.q.nilSlice(), T: pt}
				} else {
					v = Val{S: "nil", T: pt}
				}
			}
			if got := x.sortOfVal(v); got != psrt {
				return Val{}, fmt.Errorf("%s: argument %d has sort %s, want %s", e.Fun, i, got, psrt)
			}
			v.T, v.Sort = pt, psrt
			args = append(args, v)
		}
		rt, rsrt, err := x.eng.resolveTypeIn(x, pf.Pkg, c.pkg, pf.Ret)
		if err != nil {
			return Val{}, err
		}
		if pf.Body == nil {
			var as, ss []string
			for i, a := range args {
				as = append(as, a.S)
				ss = append(ss, x.sortOfVal(args[i]))
			}
			fn := x.q.declareFun("pf_"+pf.Name, ss, rsrt)
			if len(as) == 0 {
				return Val{S: fn, T: rt, Sort: rsrt}, nil
			}
			return Val{S: fmt.Sprintf("(%s %s)", fn, strings.Join(as, " ")), T: rt, Sort: rsrt}, nil
		}
		extra := map[string]Val{}
		for i, p := range pf.Params {
			extra[p.Name] = args[i]
		}
		nc := c.with(nil)
		nc.extra = extra // hygienic: only parameters visible (plus package scope / ghosts)
		nc.noLocals = true
		nc.depth = c.depth + 1
		if pp := x.eng.pkgByPath(pf.Pkg); pp != nil {
			nc.pkg = pp
		}
		v, err := x.eval(fr, pf.Body, nc)
		if err != nil {
			return Val{}, fmt.Errorf("in %s: %v", pf.Name, err)
		}
		if isLit(v) {
			v, _ = x.coerce(v, Val{T: rt, Sort: rsrt})
		}
		if x.sortOfVal(v) != rsrt {
			return Val{}, fmt.Errorf("%s: body has sort %s, declared %s", pf.Name, x.sortOfVal(v), rsrt)
		}
		v.T, v.Sort = rt, rsrt
		return v, nil
	}
	// library spec functions usable in contracts
	if lf, ok := specLibFuncs[e.Fun]; ok {
		var args []Val
		for i := range e.Args {
			v, err := arg(i)
			if err != nil {
				return Val{}, err
			}
			args = append(args, v)
		}
		return lf(x, c, args)
	}
	return Val{}, fmt.Errorf("unknown function %s", e.Fun)
}

// specLibFuncs: uninterpreted/defined spec-level counterparts of library functions, shared between
// library models (lib.go) and contracts.
var specLibFuncs = map[string]func(x *FnExec, c *evalCtx, args []Val) (Val, error){}

func precedes(b *ssa.BasicBlock, x, y ssa.Instruction) bool {
	for _, in := range b.Instrs {
		if in == x {
			return true
		}
		if in == y {
			return false
		}
	}
	return false
}
