package main

import (
	"fmt"
	"go/constant"
	"go/types"
	"strings"

	"golang.org/x/tools/go/ssa"
)

// Library models: trusted contracts for dependency functions, written as executable summaries.
// Every model used in a run is listed in the evidence (trusted_base).

type libModel struct {
	name   string
	apply  func(x *FnExec, fr *frame, n *node, in ssa.Instruction, c *ssa.CallCommon, args []Val, reach, hint string) (Val, error)
	writes func(x *FnExec, c *ssa.CallCommon, out map[string]bool)
}

var libModels = map[string]*libModel{}
var libInvokeModels = map[string]*libModel{}

func regLib(name string, apply func(x *FnExec, fr *frame, n *node, in ssa.Instruction, c *ssa.CallCommon, args []Val, reach, hint string) (Val, error)) *libModel {
	m := &libModel{name: name, apply: apply}
	libModels[name] = m
	return m
}

func (e *Engine) libModel(f *ssa.Function) *libModel {
	name := f.String()
	if m, ok := libModels[name]; ok {
		return m
	}
	if i := strings.Index(name, "["); i >= 0 {
		if m, ok := libModels[name[:i]]; ok {
			return m
		}
	}
	if o := f.Origin(); o != nil && o != f {
		if m, ok := libModels[o.String()]; ok {
			return m
		}
	}
	return nil
}

func (e *Engine) libInvokeModel(c *ssa.CallCommon) *libModel {
	key := types.TypeString(c.Value.Type(), nil) + "." + c.Method.Name()
	if m, ok := libInvokeModels[key]; ok {
		return m
	}
	if m, ok := libInvokeModels["*."+c.Method.Name()]; ok && c.Method.Name() == "Error" {
		return m
	}
	return nil
}

func resultType(in ssa.Instruction, c *ssa.CallCommon) types.Type {
	if v, ok := in.(ssa.Value); ok {
		return v.Type()
	}
	return c.Signature().Results()
}

var tByte = types.Typ[types.Uint8]
var tInt = types.Typ[types.Int]

func (x *FnExec) byteHeap(st *State) string {
	hn, hs := x.elemHeap(tByte)
	return x.heapGet(st, hn, hs)
}

// byteAt: term for s[i] (i a Go int term) of a []byte-like slice value
func (x *FnExec) byteAt(st *State, s string, i string) string {
	return sel(sel(x.byteHeap(st), "(s_arr "+s+")"), x.arith("+", "(s_off "+s+")", i, tInt))
}

func (x *FnExec) ilit(n int64) string { return x.q.intLit(n, nil) }

// newByteSlice allocates a fresh []byte of the given (symbolic) length whose first maxN elements are given by elem(i).
func (x *FnExec) newByteSlice(st *State, reach, hint, ln string, maxN int, elem func(i int) string) string {
	r := x.freshRef(st, hint, reach)
	arrSort := fmt.Sprintf("(Array %s %s)", x.q.intSort(), x.q.sortOf(tByte))
	a := x.q.freshConst(hint+"_arr", arrSort)
	for i := 0; i < maxN; i++ {
		x.q.assert(implies(x.cmp("<", x.ilit(int64(i)), ln, tInt), eq(sel(a, x.ilit(int64(i))), elem(i))))
	}
	hn, hs := x.elemHeap(tByte)
	x.heapSet(st, hn, hs, sto(x.heapGet(st, hn, hs), r, a))
	return x.q.define(hint, "Slice", fmt.Sprintf("(mkslice %s %s %s %s)", r, x.ilit(0), ln, ln))
}

// to4 models net.IP.To4 exactly.
func (x *FnExec) to4(st *State, ip string) string {
	b := func(i int) string { return x.byteAt(st, ip, x.ilit(int64(i))) }
	var pre []string
	for i := 0; i < 10; i++ {
		pre = append(pre, eq(b(i), x.q.intLit(0, tByte)))
	}
	pre = append(pre, eq(b(10), x.q.intLit(0xff, tByte)), eq(b(11), x.q.intLit(0xff, tByte)))
	is4 := eq("(s_len "+ip+")", x.ilit(4))
	is16m := and(eq("(s_len "+ip+")", x.ilit(16)), and(pre...))
	sub := fmt.Sprintf("(mkslice (s_arr %s) %s %s %s)", ip, x.arith("+", "(s_off "+ip+")", x.ilit(12), tInt), x.ilit(4), x.arith("-", "(s_cap "+ip+")", x.ilit(12), tInt))
	return ite(is4, ip, ite(is16m, sub, x.q.nilSlice()))
}

func (x *FnExec) bigHeap(st *State) (string, string, string) {
	srt := "(Array Ref Int)"
	if x.mode == ModeBV {
		srt = "(Array Ref (_ BitVec 136))"
	}
	return "|BigVal|", srt, x.heapGet(st, "|BigVal|", srt)
}

func init() {
	// ---------------- errors / fmt ----------------
	nonNilErr := func(x *FnExec, fr *frame, n *node, in ssa.Instruction, c *ssa.CallCommon, args []Val, reach, hint string) (Val, error) {
		r := x.havocVal(hint, resultType(in, c), reach)
		x.q.assert(not(eq(r.S, "inil")))
		return r, nil
	}
	regLib("fmt.Errorf", nonNilErr)
	regLib("errors.New", nonNilErr)
	regLib("github.com/pkg/errors.New", nonNilErr)
	regLib("github.com/pkg/errors.Errorf", nonNilErr)
	regLib("k8s.io/apimachinery/pkg/util/errors.NewAggregate", func(x *FnExec, fr *frame, n *node, in ssa.Instruction, c *ssa.CallCommon, args []Val, reach, hint string) (Val, error) {
		r := x.havocVal(hint, resultType(in, c), reach)
		x.q.assert(implies(eq("(s_len "+args[0].S+")", x.ilit(0)), eq(r.S, "inil")))
		// nil entries are filtered; any non-nil entry makes the aggregate non-nil
		errT := types.Universe.Lookup("error").Type()
		hn, hs := x.elemHeap(errT)
		arr := x.q.freshConst(hint+"_errs", fmt.Sprintf("(Array %s Iface)", x.q.intSort()))
		x.q.assert(eq(arr, sel(x.heapGet(n.st, hn, hs), "(s_arr "+args[0].S+")")))
		i := "|i?agg|"
		x.q.assert(fmt.Sprintf("(forall ((%s %s)) (! (=> (and %s %s (not (= (select %s %s) inil))) (not (= %s inil))) :pattern ((select %s %s))))", i, x.q.intSort(),
			x.cmp(">=", i, "(s_off "+args[0].S+")", tInt), x.cmp("<", i, x.arith("+", "(s_off "+args[0].S+")", "(s_len "+args[0].S+")", tInt), tInt), arr, i, r.S, arr, i))
		return r, nil
	})
	pureStr := func(x *FnExec, fr *frame, n *node, in ssa.Instruction, c *ssa.CallCommon, args []Val, reach, hint string) (Val, error) {
		return x.havocVal(hint, resultType(in, c), reach), nil
	}
	regLib("fmt.Sprintf", func(x *FnExec, fr *frame, n *node, in ssa.Instruction, c *ssa.CallCommon, args []Val, reach, hint string) (Val, error) {
		r := x.havocVal(hint, resultType(in, c), reach)
		// constant format made only of literal text and %s verbs applied to string arguments: length is the sum
		fc, ok := c.Args[0].(*ssa.Const)
		if !ok || fc.Value == nil || len(args) < 2 {
			return r, nil
		}
		format := constant.StringVal(fc.Value)
		lit, verbs := 0, 0
		for i := 0; i < len(format); i++ {
			if format[i] == '%' {
				if i+1 < len(format) && format[i+1] == 's' {
					verbs++
					i++
					continue
				}
				if i+1 < len(format) && format[i+1] == '%' {
					lit++
					i++
					continue
				}
				return r, nil
			}
			lit++
		}
		st := n.st
		va := args[1].S
		anyT := types.Universe.Lookup("any").Type()
		hn, hs := x.elemHeap(anyT)
		h := x.heapGet(st, hn, hs)
		_, unbox := x.q.boxFn(types.Typ[types.String])
		sum := x.ilit(int64(lit))
		var allStr []string
		allStr = append(allStr, eq("(s_len "+va+")", x.ilit(int64(verbs))))
		var parts []string
		for i := 0; i < verbs; i++ {
			el := sel(sel(h, "(s_arr "+va+")"), x.arith("+", "(s_off "+va+")", x.ilit(int64(i)), tInt))
			allStr = append(allStr, eq("(itag "+el+")", fmt.Sprint(x.q.typeID(types.Typ[types.String]))))
			sum = x.arith("+", sum, fmt.Sprintf("(strlen (%s %s))", unbox, el), tInt)
			parts = append(parts, fmt.Sprintf("(%s %s)", unbox, el))
		}
		x.q.assert(implies(and(allStr...), eq("(strlen "+r.S+")", sum)))
		// deterministic: a function of the format and the string arguments
		if verbs > 0 && verbs <= 4 {
			var ss []string
			for range parts {
				ss = append(ss, "Str")
			}
			fn := x.q.declareFun(fmt.Sprintf("lib_sprintf_%d_%d", verbs, lit)+"_"+mangle(format), ss, "Str")
			x.q.assert(implies(and(allStr...), eq(r.S, fmt.Sprintf("(%s %s)", fn, strings.Join(parts, " ")))))
		}
		x.trusted["fmt.Sprintf with a constant format of literal text and %s verbs over string arguments: result length is the sum of the parts, result is a function of the arguments"] = true
		return r, nil
	})
	regLib("fmt.Sprint", pureStr)

	// ---------------- crypto/sha1, encoding/hex, hash.Hash ----------------
	regLib("crypto/sha1.New", func(x *FnExec, fr *frame, n *node, in ssa.Instruction, c *ssa.CallCommon, args []Val, reach, hint string) (Val, error) {
		r := x.havocVal(hint, resultType(in, c), reach)
		x.q.declareFun("lib_hashsize", []string{"Iface"}, x.q.intSort())
		x.q.assert(and(not(eq(r.S, "inil")), eq("(lib_hashsize "+r.S+")", x.ilit(20))))
		return r, nil
	})
	libInvokeModels["hash.Hash.Sum"] = &libModel{name: "hash.Hash.Sum", apply: func(x *FnExec, fr *frame, n *node, in ssa.Instruction, c *ssa.CallCommon, args []Val, reach, hint string) (Val, error) {
		r := x.havocVal(hint, resultType(in, c), reach)
		x.q.declareFun("lib_hashsize", []string{"Iface"}, x.q.intSort())
		x.q.assert(and(eq("(s_len "+r.S+")", x.arith("+", "(s_len "+args[1].S+")", "(lib_hashsize "+args[0].S+")", tInt)), not(eq("(s_arr "+r.S+")", "nil"))))
		x.trusted["hash.Hash.Sum(b): returns len(b)+Size() bytes; sha1 Size() == 20"] = true
		return r, nil
	}}
	libInvokeModels["hash.Hash.Write"] = &libModel{name: "hash.Hash.Write", apply: func(x *FnExec, fr *frame, n *node, in ssa.Instruction, c *ssa.CallCommon, args []Val, reach, hint string) (Val, error) {
		r := x.havocVal(hint, resultType(in, c), reach)
		x.q.assert(eq(r.Tuple[1].S, "inil")) // hash.Hash.Write never returns an error (documented)
		x.trusted["hash.Hash.Write never returns an error (package hash documentation)"] = true
		return r, nil
	}}
	regLib("encoding/hex.EncodeToString", func(x *FnExec, fr *frame, n *node, in ssa.Instruction, c *ssa.CallCommon, args []Val, reach, hint string) (Val, error) {
		r := x.havocVal(hint, resultType(in, c), reach)
		x.q.assert(eq("(strlen "+r.S+")", x.arith("*", x.ilit(2), "(s_len "+args[0].S+")", tInt)))
		return r, nil
	})

	// ---------------- encoding/binary ----------------
	regLib("(encoding/binary.bigEndian).Uint32", func(x *FnExec, fr *frame, n *node, in ssa.Instruction, c *ssa.CallCommon, args []Val, reach, hint string) (Val, error) {
		b := args[1].S
		x.panicObl("index", reach, x.cmp(">=", "(s_len "+b+")", x.ilit(4), tInt), "binary.BigEndian.Uint32: slice shorter than 4 bytes", in.Pos())
		st := n.st
		t := types.Typ[types.Uint32]
		if x.mode == ModeBV {
			v := fmt.Sprintf("(concat %s (concat %s (concat %s %s)))", x.byteAt(st, b, x.ilit(0)), x.byteAt(st, b, x.ilit(1)), x.byteAt(st, b, x.ilit(2)), x.byteAt(st, b, x.ilit(3)))
			return Val{S: x.q.define(hint, "(_ BitVec 32)", v), T: t}, nil
		}
		v := fmt.Sprintf("(+ (* 16777216 %s) (* 65536 %s) (* 256 %s) %s)", x.byteAt(st, b, "0"), x.byteAt(st, b, "1"), x.byteAt(st, b, "2"), x.byteAt(st, b, "3"))
		return Val{S: x.q.define(hint, "Int", v), T: t}, nil
	})

	// ---------------- net ----------------
	regLib("(net.IP).To4", func(x *FnExec, fr *frame, n *node, in ssa.Instruction, c *ssa.CallCommon, args []Val, reach, hint string) (Val, error) {
		return Val{S: x.q.define(hint, "Slice", x.to4(n.st, args[0].S)), T: resultType(in, c)}, nil
	})
	regLib("(net.IP).Mask", func(x *FnExec, fr *frame, n *node, in ssa.Instruction, c *ssa.CallCommon, args []Val, reach, hint string) (Val, error) {
		st := n.st
		ip, mask := args[0].S, args[1].S
		lenOf := func(s string) string { return "(s_len " + s + ")" }
		sub12 := func(s string) string {
			return fmt.Sprintf("(mkslice (s_arr %s) %s %s %s)", s, x.arith("+", "(s_off "+s+")", x.ilit(12), tInt), x.arith("-", "(s_len "+s+")", x.ilit(12), tInt), x.arith("-", "(s_cap "+s+")", x.ilit(12), tInt))
		}
		var allFF, v4pre []string
		for i := 0; i < 12; i++ {
			allFF = append(allFF, eq(x.byteAt(st, mask, x.ilit(int64(i))), x.q.intLit(0xff, tByte)))
			want := int64(0)
			if i >= 10 {
				want = 0xff
			}
			v4pre = append(v4pre, eq(x.byteAt(st, ip, x.ilit(int64(i))), x.q.intLit(want, tByte)))
		}
		m1 := x.q.define(hint+"_m", "Slice", ite(and(eq(lenOf(mask), x.ilit(16)), eq(lenOf(ip), x.ilit(4)), and(allFF...)), sub12(mask), mask))
		ip1 := x.q.define(hint+"_ip", "Slice", ite(and(eq(lenOf(m1), x.ilit(4)), eq(lenOf(ip), x.ilit(16)), and(v4pre...)), sub12(ip), ip))
		ln := lenOf(ip1)
		res := x.newByteSlice(st, reach, hint+"_out", ln, 16, func(i int) string {
			a, b := x.byteAt(st, ip1, x.ilit(int64(i))), x.byteAt(st, m1, x.ilit(int64(i)))
			if x.mode == ModeBV {
				return fmt.Sprintf("(bvand %s %s)", a, b)
			}
			x.q.declareFun("byte_and", []string{"Int", "Int"}, "Int")
			return fmt.Sprintf("(byte_and %s %s)", a, b)
		})
		x.q.note("net.IP.Mask: element values modelled for the first 16 bytes only (longer inputs: arbitrary)")
		return Val{S: x.q.define(hint, "Slice", ite(eq(ln, lenOf(m1)), res, x.q.nilSlice())), T: resultType(in, c)}, nil
	})
	regLib("(*net.IPNet).Contains", func(x *FnExec, fr *frame, n *node, in ssa.Instruction, c *ssa.CallCommon, args []Val, reach, hint string) (Val, error) {
		st := n.st
		recv := args[0]
		ipnetT := derefType(c.Args[0].Type())
		hIP, sIP, _ := x.fieldHeap(ipnetT, 0)
		hM, sM, _ := x.fieldHeap(ipnetT, 1)
		x.nonNil(reach, recv, "IPNet.Contains receiver", in.Pos())
		r := x.scalar(recv)
		nIP := sel(x.heapGet(st, hIP, sIP), r)
		nM := sel(x.heapGet(st, hM, sM), r)
		res := x.q.define(hint, "Bool", x.containsTerm(st, hint, nIP, nM, args[1].S))
		return Val{S: res, T: types.Typ[types.Bool]}, nil
	})
	regLib("net.ParseCIDR", func(x *FnExec, fr *frame, n *node, in ssa.Instruction, c *ssa.CallCommon, args []Val, reach, hint string) (Val, error) {
		st := n.st
		res := x.havocVal(hint, resultType(in, c), reach)
		ipn, err := res.Tuple[1].S, res.Tuple[2].S
		ipnetT := derefType(res.Tuple[1].T)
		hIP, sIP, _ := x.fieldHeap(ipnetT, 0)
		hM, sM, _ := x.fieldHeap(ipnetT, 1)
		// fresh *IPNet with fresh IP / Mask slices
		al := x.heapGet(st, "$alloc", "(Array Ref Bool)")
		ipS := x.q.freshConst(hint+"_ip", "Slice")
		mS := x.q.freshConst(hint+"_mask", "Slice")
		ok := eq(err, "inil")
		x.q.assert(implies(not(ok), eq(ipn, "nil")))
		x.q.assert(implies(ok, and(not(eq(ipn, "nil")), not(sel(al, ipn)), not(sel(al, "(s_arr "+ipS+")")), not(sel(al, "(s_arr "+mS+")")),
			not(eq("(s_arr "+ipS+")", "nil")), not(eq("(s_arr "+mS+")", "nil")), not(eq("(s_arr "+ipS+")", "(s_arr "+mS+")")),
			fmt.Sprintf("(slice_ok %s)", ipS), fmt.Sprintf("(slice_ok %s)", mS),
			eq("(s_len "+ipS+")", "(s_len "+mS+")"), or(eq("(s_len "+ipS+")", x.ilit(4)), eq("(s_len "+ipS+")", x.ilit(16))))))
		x.heapSet(st, "$alloc", "(Array Ref Bool)", ite(ok, sto(sto(sto(al, ipn, "true"), "(s_arr "+ipS+")", "true"), "(s_arr "+mS+")", "true"), al))
		x.heapSet(st, hIP, sIP, ite(ok, sto(x.heapGet(st, hIP, sIP), ipn, ipS), x.heapGet(st, hIP, sIP)))
		x.heapSet(st, hM, sM, ite(ok, sto(x.heapGet(st, hM, sM), ipn, mS), x.heapGet(st, hM, sM)))
		// tie the result to spec functions of the input string (ParseCIDR is deterministic)
		x.q.declareFun("pf_cidrOK", []string{"Str"}, "Bool")
		x.q.declareFun("pf_cidrIs4", []string{"Str"}, "Bool")
		x.q.assert(eq(ok, "(pf_cidrOK "+args[0].S+")"))
		x.q.assert(implies(ok, eq(eq("(s_len "+ipS+")", x.ilit(4)), "(pf_cidrIs4 "+args[0].S+")")))
		if x.mode == ModeBV {
			for _, L := range []int{4, 16} {
				bits := 8 * L
				cat := func(s string) string {
					t := x.byteAt(st, s, x.ilit(0))
					for i := 1; i < L; i++ {
						t = fmt.Sprintf("(concat %s %s)", t, x.byteAt(st, s, x.ilit(int64(i))))
					}
					return t
				}
				fn, fm := fmt.Sprintf("pf_cidrNet%d", L), fmt.Sprintf("pf_cidrMask%d", L)
				x.q.declareFun(fn, []string{"Str"}, fmt.Sprintf("(_ BitVec %d)", bits))
				x.q.declareFun(fm, []string{"Str"}, fmt.Sprintf("(_ BitVec %d)", bits))
				x.q.assert(implies(and(ok, eq("(s_len "+ipS+")", x.ilit(int64(L)))), and(eq(cat(ipS), fmt.Sprintf("(%s %s)", fn, args[0].S)), eq(cat(mS), fmt.Sprintf("(%s %s)", fm, args[0].S)))))
			}
		}
		if x.mode == ModeBV {
			// mask is a prefix mask; IP is the network number (IP & Mask == IP)
			for _, L := range []int{4, 16} {
				bits := 8 * L
				cat := func(s string) string {
					t := x.byteAt(st, s, x.ilit(0))
					for i := 1; i < L; i++ {
						t = fmt.Sprintf("(concat %s %s)", t, x.byteAt(st, s, x.ilit(int64(i))))
					}
					return t
				}
				p := x.q.freshConst(fmt.Sprintf("%s_plen%d", hint, L), fmt.Sprintf("(_ BitVec %d)", bits))
				ones := fmt.Sprintf("(bvnot (_ bv0 %d))", bits)
				x.q.assert(implies(and(ok, eq("(s_len "+ipS+")", x.ilit(int64(L)))), and(
					fmt.Sprintf("(bvule %s (_ bv%d %d))", p, bits, bits),
					eq(cat(mS), fmt.Sprintf("(bvshl %s (bvsub (_ bv%d %d) %s))", ones, bits, bits, p)),
					eq(fmt.Sprintf("(bvand %s %s)", cat(ipS), cat(mS)), cat(ipS)))))
			}
		}
		x.trusted["net.ParseCIDR: on success returns a fresh *IPNet with len(IP)==len(Mask) in {4,16}, a contiguous prefix mask and IP == IP&Mask"] = true
		return res, nil
	})
	regLib("(net.IP).String", func(x *FnExec, fr *frame, n *node, in ssa.Instruction, c *ssa.CallCommon, args []Val, reach, hint string) (Val, error) {
		st := n.st
		ip := args[0].S
		r := x.havocVal(hint, resultType(in, c), reach)
		x.q.assert(implies(eq("(s_len "+ip+")", x.ilit(0)), eq(r.S, x.q.strLit("<nil>"))))
		if x.mode == ModeBV {
			for _, L := range []int{4, 16} {
				t := x.byteAt(st, ip, x.ilit(0))
				for i := 1; i < L; i++ {
					t = fmt.Sprintf("(concat %s %s)", t, x.byteAt(st, ip, x.ilit(int64(i))))
				}
				fn := fmt.Sprintf("pf_ipString%d", L)
				x.q.declareFun(fn, []string{fmt.Sprintf("(_ BitVec %d)", 8*L)}, "Str")
				x.q.assert(implies(eq("(s_len "+ip+")", x.ilit(int64(L))), and(eq(r.S, fmt.Sprintf("(%s %s)", fn, t)), x.cmp(">=", "(strlen "+r.S+")", x.ilit(2), tInt))))
			}
		} else {
			x.q.assert(implies(or(eq("(s_len "+ip+")", x.ilit(4)), eq("(s_len "+ip+")", x.ilit(16))), x.cmp(">=", "(strlen "+r.S+")", x.ilit(2), tInt)))
		}
		x.trusted["net.IP.String: a deterministic function of the address bytes for 4/16-byte addresses, non-empty; \"<nil>\" for length 0"] = true
		return r, nil
	})

	// ---------------- math/big (bit-vector mode: 136-bit two's complement; int mode: mathematical) ----------------
	regLib("math/big.NewInt", func(x *FnExec, fr *frame, n *node, in ssa.Instruction, c *ssa.CallCommon, args []Val, reach, hint string) (Val, error) {
		st := n.st
		r := x.freshRef(st, "bigint", reach)
		hn, hs, h := x.bigHeap(st)
		v := args[0].S
		if x.mode == ModeBV {
			v = fmt.Sprintf("((_ sign_extend 72) %s)", v)
		}
		x.heapSet(st, hn, hs, sto(h, r, v))
		return Val{S: r, T: resultType(in, c)}, nil
	})
	regLib("(*math/big.Int).SetBytes", func(x *FnExec, fr *frame, n *node, in ssa.Instruction, c *ssa.CallCommon, args []Val, reach, hint string) (Val, error) {
		st := n.st
		z, buf := args[0].S, args[1].S
		hn, hs, h := x.bigHeap(st)
		var val string
		if x.mode == ModeBV {
			val = x.q.freshConst(hint+"_big", "(_ BitVec 136)")
			for L := 0; L <= 17; L++ {
				var t string
				if L == 0 {
					t = "(_ bv0 136)"
				} else {
					t = x.byteAt(st, buf, x.ilit(0))
					for i := 1; i < L; i++ {
						t = fmt.Sprintf("(concat %s %s)", t, x.byteAt(st, buf, x.ilit(int64(i))))
					}
					if L < 17 {
						t = fmt.Sprintf("((_ zero_extend %d) %s)", 136-8*L, t)
					}
				}
				x.q.assert(implies(eq("(s_len "+buf+")", x.ilit(int64(L))), eq(val, t)))
			}
			x.q.note("big.Int.SetBytes: value modelled for inputs up to 17 bytes (longer: arbitrary)")
		} else {
			val = x.q.freshConst(hint+"_big", "Int")
			x.q.assert(fmt.Sprintf("(>= %s 0)", val))
		}
		x.heapSet(st, hn, hs, sto(h, z, val))
		return Val{S: z, T: resultType(in, c)}, nil
	})
	regLib("(*math/big.Int).Add", func(x *FnExec, fr *frame, n *node, in ssa.Instruction, c *ssa.CallCommon, args []Val, reach, hint string) (Val, error) {
		st := n.st
		hn, hs, h := x.bigHeap(st)
		a, b := sel(h, args[1].S), sel(h, args[2].S)
		var v string
		if x.mode == ModeBV {
			v = fmt.Sprintf("(bvadd %s %s)", a, b)
		} else {
			v = fmt.Sprintf("(+ %s %s)", a, b)
		}
		x.heapSet(st, hn, hs, sto(h, args[0].S, v))
		return Val{S: args[0].S, T: resultType(in, c)}, nil
	})
	regLib("(*math/big.Int).Sign", func(x *FnExec, fr *frame, n *node, in ssa.Instruction, c *ssa.CallCommon, args []Val, reach, hint string) (Val, error) {
		_, _, h := x.bigHeap(n.st)
		v := sel(h, args[0].S)
		if x.mode == ModeBV {
			return Val{S: x.q.define(hint, x.q.intSort(), fmt.Sprintf("(ite (= %s (_ bv0 136)) %s (ite (bvslt %s (_ bv0 136)) %s %s))", v, x.ilit(0), v, x.ilit(-1), x.ilit(1))), T: tInt}, nil
		}
		return Val{S: x.q.define(hint, "Int", fmt.Sprintf("(ite (= %s 0) 0 (ite (< %s 0) (- 1) 1))", v, v)), T: tInt}, nil
	})
	regLib("(*math/big.Int).Bytes", func(x *FnExec, fr *frame, n *node, in ssa.Instruction, c *ssa.CallCommon, args []Val, reach, hint string) (Val, error) {
		st := n.st
		_, _, h := x.bigHeap(st)
		if x.mode != ModeBV {
			return x.havocVal(hint, resultType(in, c), reach), nil
		}
		raw := sel(h, args[0].S)
		v := x.q.define(hint+"_abs", "(_ BitVec 136)", fmt.Sprintf("(ite (bvslt %s (_ bv0 136)) (bvneg %s) %s)", raw, raw, raw))
		// minimal length in bytes
		ln := x.ilit(17)
		for k := 16; k >= 0; k-- {
			// v < 2^(8k)  => length <= k
			lim := fmt.Sprintf("(bvshl (_ bv1 136) (_ bv%d 136))", 8*k)
			ln = ite(fmt.Sprintf("(bvult %s %s)", v, lim), x.ilit(int64(k)), ln)
		}
		lnc := x.q.define(hint+"_n", x.q.intSort(), ln)
		res := x.newByteSlice(st, reach, hint, lnc, 17, func(i int) string {
			// byte (n-1-i) counted from the least significant end
			sh := fmt.Sprintf("(bvmul (_ bv8 136) ((_ zero_extend 72) (bvsub (bvsub %s (_ bv1 64)) (_ bv%d 64))))", lnc, i)
			return fmt.Sprintf("((_ extract 7 0) (bvlshr %s %s))", v, sh)
		})
		x.trusted["math/big: Int as 136-bit two's complement; SetBytes/Add/Bytes per package documentation (Bytes = minimal big-endian magnitude)"] = true
		return Val{S: res, T: resultType(in, c)}, nil
	})

	// ---------------- strings / strconv: deterministic spec functions with length/range facts ----------------
	strFn := func(goName, spec string, facts func(x *FnExec, r string, args []Val) []string) {
		regLib(goName, func(x *FnExec, fr *frame, n *node, in ssa.Instruction, c *ssa.CallCommon, args []Val, reach, hint string) (Val, error) {
			var as, ss []string
			for i, a := range args {
				if _, isSig := c.Args[i].Type().Underlying().(*types.Signature); isSig {
					continue // function-valued argument: part of the spec name
				}
				as = append(as, x.scalar(a))
				ss = append(ss, x.q.sortOf(a.T))
			}
			name := "pf_" + spec
			for i, a := range args {
				if _, isSig := c.Args[i].Type().Underlying().(*types.Signature); isSig {
					if a.Fn != nil {
						name += "_" + mangle(a.Fn.Name())
					} else {
						return x.havocVal(hint, resultType(in, c), reach), nil
					}
				}
			}
			rt := resultType(in, c)
			fn := x.q.declareFun(name, ss, x.q.sortOf(rt))
			term := x.q.define(hint, x.q.sortOf(rt), fmt.Sprintf("(%s %s)", fn, strings.Join(as, " ")))
			x.assumeValid("true", term, rt)
			if facts != nil {
				for _, f := range facts(x, term, args) {
					x.q.assert(f)
				}
			}
			return Val{S: term, T: rt}, nil
		})
		specLibFuncs[spec] = func(x *FnExec, c *evalCtx, args []Val) (Val, error) {
			var as, ss []string
			for _, a := range args {
				as = append(as, a.S)
				ss = append(ss, x.sortOfVal(a))
			}
			// result sort: strings for string functions, int for index functions
			rs, rt := "Str", types.Type(types.Typ[types.String])
			if strings.HasPrefix(spec, "index") || strings.HasPrefix(spec, "lastIndex") {
				rs, rt = x.q.intSort(), tInt
			}
			fn := x.q.declareFun("pf_"+spec, ss, rs)
			return Val{S: fmt.Sprintf("(%s %s)", fn, strings.Join(as, " ")), T: rt}, nil
		}
	}
	strFn("strings.TrimSpace", "trimSpace", func(x *FnExec, r string, args []Val) []string {
		return []string{x.cmp("<=", "(strlen "+r+")", "(strlen "+args[0].S+")", tInt)}
	})
	for goName, spec := range map[string]string{"strings.ToUpper": "toUpper", "strings.ToLower": "toLower", "strings.Trim": "trim", "strings.TrimPrefix": "trimPrefix", "strings.TrimSuffix": "trimSuffix",
		"strings.TrimLeft": "trimLeft", "strings.TrimRight": "trimRight", "strings.ReplaceAll": "replaceAll", "strings.Title": "title"} {
		strFn(goName, spec, nil)
	}
	regLib("strings.Replace", pureStr)
	regLib("strings.Join", pureStr)
	idxFacts := func(x *FnExec, r string, args []Val) []string {
		return []string{and(x.cmp(">=", r, x.ilit(-1), tInt), x.cmp("<", r, ite(x.cmp(">", "(strlen "+args[0].S+")", x.ilit(0), tInt), "(strlen "+args[0].S+")", x.ilit(0)), tInt))}
	}
	for goName, spec := range map[string]string{"strings.IndexFunc": "indexFunc", "strings.Index": "index", "strings.IndexByte": "indexByte", "strings.IndexRune": "indexRune", "strings.IndexAny": "indexAny",
		"strings.LastIndex": "lastIndex", "strings.LastIndexByte": "lastIndexByte", "strings.LastIndexFunc": "lastIndexFunc", "strings.LastIndexAny": "lastIndexAny"} {
		strFn(goName, spec, idxFacts)
	}
	// strconv: (value, error) pairs as deterministic functions of the input string
	conv := func(goName, spec string, valSort func(x *FnExec) string) {
		regLib(goName, func(x *FnExec, fr *frame, n *node, in ssa.Instruction, c *ssa.CallCommon, args []Val, reach, hint string) (Val, error) {
			rt := resultType(in, c).(*types.Tuple)
			vs := x.q.sortOf(rt.At(0).Type())
			okF := x.q.declareFun("pf_"+spec+"OK", []string{"Str"}, "Bool")
			valF := x.q.declareFun("pf_"+spec+"Val", []string{"Str"}, vs)
			res := x.havocVal(hint, rt, reach)
			ok := fmt.Sprintf("(%s %s)", okF, args[0].S)
			x.q.assert(eq(eq(res.Tuple[1].S, "inil"), ok))
			x.q.assert(implies(ok, eq(res.Tuple[0].S, fmt.Sprintf("(%s %s)", valF, args[0].S))))
			// on error the documented zero / saturated value is returned: for bool and float parse errors it is the zero value
			if spec == "parseBool" {
				x.q.assert(implies(not(ok), eq(res.Tuple[0].S, "false")))
			}
			return res, nil
		})
		specLibFuncs[spec+"OK"] = func(x *FnExec, c *evalCtx, args []Val) (Val, error) {
			fn := x.q.declareFun("pf_"+spec+"OK", []string{"Str"}, "Bool")
			return Val{S: fmt.Sprintf("(%s %s)", fn, args[0].S), T: types.Typ[types.Bool]}, nil
		}
		specLibFuncs[spec+"Val"] = func(x *FnExec, c *evalCtx, args []Val) (Val, error) {
			vs := valSort(x)
			fn := x.q.declareFun("pf_"+spec+"Val", []string{"Str"}, vs)
			var t types.Type = tInt
			switch vs {
			case "Real":
				t = types.Typ[types.Float64]
			case "Bool":
				t = types.Typ[types.Bool]
			}
			return Val{S: fmt.Sprintf("(%s %s)", fn, args[0].S), T: t}, nil
		}
	}
	conv("strconv.ParseFloat", "parseFloat", func(x *FnExec) string { return "Real" })
	conv("strconv.ParseBool", "parseBool", func(x *FnExec) string { return "Bool" })
	conv("strconv.Atoi", "atoi", func(x *FnExec) string { return x.q.intSort() })
	specLibFuncs["indexLetter"] = func(x *FnExec, c *evalCtx, args []Val) (Val, error) {
		fn := x.q.declareFun("pf_indexFunc_IsLetter", []string{"Str"}, x.q.intSort())
		return Val{S: fmt.Sprintf("(%s %s)", fn, args[0].S), T: tInt}, nil
	}
	specLibFuncs["substr"] = func(x *FnExec, c *evalCtx, args []Val) (Val, error) {
		if len(args) != 3 {
			return Val{}, fmt.Errorf("substr(s, lo, hi)")
		}
		lo, hi := x.fixLit(args[1]), x.fixLit(args[2])
		return Val{S: fmt.Sprintf("(str_sub %s %s %s)", args[0].S, lo.S, hi.S), T: types.Typ[types.String]}, nil
	}
	regLib("strings.Split", func(x *FnExec, fr *frame, n *node, in ssa.Instruction, c *ssa.CallCommon, args []Val, reach, hint string) (Val, error) {
		r := x.havocVal(hint, resultType(in, c), reach)
		// non-empty separator: at least one element
		x.q.assert(implies(x.cmp(">", "(strlen "+args[1].S+")", x.ilit(0), tInt), x.cmp(">=", "(s_len "+r.S+")", x.ilit(1), tInt)))
		x.q.assert(implies(x.cmp(">", "(s_len "+r.S+")", x.ilit(0), tInt), not(eq("(s_arr "+r.S+")", "nil"))))
		return r, nil
	})
	regLib("strings.SplitN", func(x *FnExec, fr *frame, n *node, in ssa.Instruction, c *ssa.CallCommon, args []Val, reach, hint string) (Val, error) {
		r := x.havocVal(hint, resultType(in, c), reach)
		x.q.assert(implies(x.cmp(">", args[2].S, x.ilit(0), tInt), x.cmp("<=", "(s_len "+r.S+")", args[2].S, tInt)))
		x.q.assert(implies(x.cmp(">", "(s_len "+r.S+")", x.ilit(0), tInt), not(eq("(s_arr "+r.S+")", "nil"))))
		return r, nil
	})
	regLib("strings.Fields", func(x *FnExec, fr *frame, n *node, in ssa.Instruction, c *ssa.CallCommon, args []Val, reach, hint string) (Val, error) {
		r := x.havocVal(hint, resultType(in, c), reach)
		x.q.assert(implies(x.cmp(">", "(s_len "+r.S+")", x.ilit(0), tInt), not(eq("(s_arr "+r.S+")", "nil"))))
		return r, nil
	})
	for _, nm := range []string{"strings.HasPrefix", "strings.HasSuffix", "strings.Contains", "strings.EqualFold", "strings.ContainsAny"} {
		regLib(nm, pureStr)
	}
	regLib("strconv.Itoa", pureFn("itoa", "Str"))

	// ---------------- sync: no-ops (lock discipline is handled by monitor contracts where present) ----------------
	noop := func(x *FnExec, fr *frame, n *node, in ssa.Instruction, c *ssa.CallCommon, args []Val, reach, hint string) (Val, error) {
		return Val{T: resultType(in, c)}, nil
	}
	for _, nm := range []string{"(*sync.Mutex).Lock", "(*sync.Mutex).Unlock", "(*sync.RWMutex).Lock", "(*sync.RWMutex).Unlock", "(*sync.RWMutex).RLock", "(*sync.RWMutex).RUnlock",
		"(*sync.WaitGroup).Add", "(*sync.WaitGroup).Done", "(*sync.WaitGroup).Wait", "(*sync.Cond).Broadcast", "(*sync.Cond).Signal", "time.Sleep"} {
		regLib(nm, noop)
	}

	// ---------------- k8s metav1.ObjectMeta getters: plain field reads ----------------
	for getter, field := range map[string]string{"GetLabels": "Labels", "GetAnnotations": "Annotations", "GetName": "Name", "GetNamespace": "Namespace", "GetUID": "UID",
		"GetDeletionTimestamp": "DeletionTimestamp", "GetFinalizers": "Finalizers", "GetResourceVersion": "ResourceVersion", "GetOwnerReferences": "OwnerReferences", "GetGeneration": "Generation"} {
		field := field
		regLib("(*k8s.io/apimachinery/pkg/apis/meta/v1.ObjectMeta)."+getter, func(x *FnExec, fr *frame, n *node, in ssa.Instruction, c *ssa.CallCommon, args []Val, reach, hint string) (Val, error) {
			recv := args[0]
			a := x.pointerAddr(recv)
			if a == nil {
				return x.havocVal(hint, resultType(in, c), reach), nil
			}
			if recv.Addr == nil {
				x.nonNil(reach, recv, "ObjectMeta getter receiver", in.Pos())
			}
			stT := derefType(c.Args[0].Type())
			stt := stT.Underlying().(*types.Struct)
			for i := 0; i < stt.NumFields(); i++ {
				if stt.Field(i).Name() != field {
					continue
				}
				var fa Addr
				if a.Root == rootField && a.Idx == "whole" && len(a.Path) == 0 {
					hn, hs, ft := x.fieldHeap(stT, i)
					fa = Addr{Root: rootField, Base: a.Base, Heap: hn, HSort: hs, RootT: ft, T: ft}
				} else {
					fa = *a
					fa.Path = append(append([]PathStep{}, a.Path...), PathStep{Field: i, Struct: stT})
					fa.T = stt.Field(i).Type()
				}
				t := x.q.define(hint, x.q.sortOf(fa.T), x.loadAddr(n.st, &fa))
				x.assumeValid(reach, t, fa.T)
				x.assumeAllocT(n.st, reach, t, fa.T, 1)
				return Val{S: t, T: resultType(in, c)}, nil
			}
			return x.havocVal(hint, resultType(in, c), reach), nil
		})
	}

	// ---------------- math ----------------
	regLib("math.Floor", func(x *FnExec, fr *frame, n *node, in ssa.Instruction, c *ssa.CallCommon, args []Val, reach, hint string) (Val, error) {
		return Val{S: fmt.Sprintf("(to_real (to_int %s))", args[0].S), T: resultType(in, c)}, nil
	})
	regLib("math.Ceil", func(x *FnExec, fr *frame, n *node, in ssa.Instruction, c *ssa.CallCommon, args []Val, reach, hint string) (Val, error) {
		return Val{S: fmt.Sprintf("(- (to_real (to_int (- %s))))", args[0].S), T: resultType(in, c)}, nil
	})
}

// pureFn: result is an uninterpreted function of the (scalar) arguments — deterministic, no effects.
func pureFn(fname, retSort string) func(x *FnExec, fr *frame, n *node, in ssa.Instruction, c *ssa.CallCommon, args []Val, reach, hint string) (Val, error) {
	return func(x *FnExec, fr *frame, n *node, in ssa.Instruction, c *ssa.CallCommon, args []Val, reach, hint string) (Val, error) {
		var as, ss []string
		for _, a := range args {
			as = append(as, x.scalar(a))
			ss = append(ss, x.q.sortOf(a.T))
		}
		rt := resultType(in, c)
		rs := x.q.sortOf(rt)
		fn := x.q.declareFun("lib_"+fname, ss, rs)
		term := fn
		if len(as) > 0 {
			term = fmt.Sprintf("(%s %s)", fn, strings.Join(as, " "))
		}
		x.assumeValid(reach, term, rt)
		return Val{S: term, T: rt}, nil
	}
}

// containsTerm: exact model of (*net.IPNet).Contains(ip) for network (nIP, nM) — lengths up to 16.
func (x *FnExec) containsTerm(st *State, hint, nIP, nM, ip string) string {
	lenOf := func(s string) string { return "(s_len " + s + ")" }
	sub12 := func(s string) string {
		return fmt.Sprintf("(mkslice (s_arr %s) %s %s %s)", s, x.arith("+", "(s_off "+s+")", x.ilit(12), tInt), x.arith("-", "(s_len "+s+")", x.ilit(12), tInt), x.arith("-", "(s_cap "+s+")", x.ilit(12), tInt))
	}
	// networkNumberAndMask
	n4 := x.q.define(hint+"_n4", "Slice", x.to4(st, nIP))
	isNil := func(s string) string { return eq("(s_arr "+s+")", "nil") }
	nip := x.q.define(hint+"_nip", "Slice", ite(not(isNil(n4)), n4, nIP))
	okIP := or(not(isNil(n4)), eq(lenOf(nIP), x.ilit(16)))
	okM := or(and(eq(lenOf(nM), x.ilit(4)), eq(lenOf(nip), x.ilit(4))), eq(lenOf(nM), x.ilit(16)))
	m := x.q.define(hint+"_m", "Slice", ite(and(eq(lenOf(nM), x.ilit(16)), eq(lenOf(nip), x.ilit(4))), sub12(nM), nM))
	valid := x.q.define(hint+"_valid", "Bool", and(okIP, okM))
	nnLen := ite(valid, lenOf(nip), x.ilit(0))
	ip4 := x.q.define(hint+"_x4", "Slice", x.to4(st, ip))
	ipe := x.q.define(hint+"_ipe", "Slice", ite(not(isNil(ip4)), ip4, ip))
	l := lenOf(ipe)
	var conj []string
	conj = append(conj, eq(l, nnLen))
	for i := 0; i < 16; i++ {
		a, b, mm := x.byteAt(st, nip, x.ilit(int64(i))), x.byteAt(st, ipe, x.ilit(int64(i))), x.byteAt(st, m, x.ilit(int64(i)))
		var same string
		if x.mode == ModeBV {
			same = eq(fmt.Sprintf("(bvand %s %s)", a, mm), fmt.Sprintf("(bvand %s %s)", b, mm))
		} else {
			x.q.declareFun("byte_and", []string{"Int", "Int"}, "Int")
			same = eq(fmt.Sprintf("(byte_and %s %s)", a, mm), fmt.Sprintf("(byte_and %s %s)", b, mm))
		}
		conj = append(conj, implies(x.cmp("<", x.ilit(int64(i)), l, tInt), same))
	}
	x.q.note("net.IPNet.Contains: modelled exactly for address lengths up to 16 bytes")
	return and(conj...)
}
