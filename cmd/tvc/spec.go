package main

import (
	"fmt"
	"os"
	"path/filepath"
	"sort"
	"strconv"
	"strings"
	"unicode"
)

// ---------------------------------------------------------------------------
// Contract files: /repo/<pkg>/zz_verif_contracts.go, "//go:build verif", comment-only.
// ---------------------------------------------------------------------------

type Clause struct {
	Slow bool   // only generated in the thorough tier
	Kind string // requires, ensures, assume, invariant(loop), ...
	Expr Expr
	Src  string
	Line int
	Loop int // for loop clauses
}

type FuncSpec struct {
	Pkg      string // import path
	Key      string // e.g. "Set.PeekAvailable", "U32IPv6Src", "Finish$1"
	Props    []string
	Mode     Mode
	Requires []*Clause
	Ensures  []*Clause
	Assumes  []*Clause
	AssumedEnsures []*Clause // postconditions used by callers but NOT proved for the body (listed as assumptions)
	Cases    []*Clause // case split: the function is verified once per case, with the case as an extra assumption;
	// an additional obligation proves the cases are exhaustive under the precondition
	Modifies []string // heap specs; nil = infer; ["nothing"]
	HasMod   bool
	Preserves []string // heaps whose pre-existing objects are unchanged ("all" = every heap the function may write)
	LoopUse  map[int][]*Clause
	LoopInv  map[int][]*Clause
	Unroll   map[int]int
	LoopMod  map[int][]string
	Inline   bool
	Budget        int  // seconds: solver budget for the retry of this function's obligations (heavy bit-vector proofs)
	ExPat         bool // existential quantifiers over one slice index are rewritten to absolute positions with a trigger
	Yields        bool // sync.Cond.Wait releases the lock: every heap is arbitrary afterwards (other goroutines ran)
	MapOrder      bool // static obligation: no result depends on map iteration order (every map range only collects into a slice that is sorted before any other use)
	Deterministic bool // static obligation: no map range, select, go, time/rand/env calls, no reads of package variables
	Panics   bool // generate panic obligations
	Arith    bool // overflow obligations
	Trusted  bool // contract is assumed, body not verified (interfaces / externals)
	Ghost    []*GhostUpdate
	File     string
	Line     int
}

type GhostUpdate struct {
	Callee string // callee key (short) the update is attached to
	Ord    int    // ordinal of that callee's call within the function (1-based); 0 = every
	Var    string
	Expr   Expr
	When   string // "before" | "after"
	Src    string
}

type PureFunc struct {
	Axiom  bool // an assumed, named, parametric fact: only usable through `use` clauses (explicit instantiation)
	Name   string
	Params []Binder
	Ret    TypeExpr
	Body   Expr // nil = uninterpreted
	Src    string
	Pkg    string
}

type Guard struct {
	Pkg    string
	Props  []string
	Kind   string // "call" | "store"
	Target string // callee key "pkg.Recv.Name" (short pkg name allowed) or "Type.field"
	Expr   Expr
	Src    string
	Name   string // optional label
	Label  string // `as <label>`: all sites of a function form one obligation "guard:<label>"
	In     string // optional: restrict to call sites inside this function
	Line   int
	Ord    int // optional: only the Ord-th call of the callee within the enclosing function
	Optional bool // `guard?`: a prohibition — it is fine (and the normal case) that no site matches
	Hits   int // number of sites this guard produced an obligation for (0 = the guard is vacuous: reported)
}

type GhostVar struct {
	Pkg  string
	Name string
	Type TypeExpr
	Init Expr
}

type Lemma struct {
	Pkg   string
	Props []string
	Name  string
	Expr  Expr
	Src   string
	Mode  Mode
}

// HeapInv: a value-only invariant of every cell of a heap (slice elements, map values, a struct field):
// assumed for every value read from that heap, proved for every value written to it.
type HeapInv struct {
	Pkg   string
	Props []string
	Heap  string // heap spec: "elem *Card", "map string *T", "Type.field"
	Expr  Expr   // over `value`
	Src   string
}

type SpecDB struct {
	HeapInvs []*HeapInv
	Funcs  map[string]*FuncSpec // by pkgpath + ":" + key
	Pure   map[string]*PureFunc // by name (global namespace; package-qualified later if needed)
	Guards []*Guard
	Ghosts map[string]*GhostVar
	Lemmas []*Lemma
	Files  []string
	Errors []string
}

func newSpecDB() *SpecDB {
	return &SpecDB{Funcs: map[string]*FuncSpec{}, Pure: map[string]*PureFunc{}, Ghosts: map[string]*GhostVar{}}
}

const contractFileName = "zz_verif_contracts.go"

// loadSpecsForPackage reads <repo>/<rel>/zz_verif_contracts.go if present.
func (db *SpecDB) loadSpecsForPackage(repo, pkgPath string) {
	rel := strings.TrimPrefix(pkgPath, repoModule)
	rel = strings.TrimPrefix(rel, "/")
	file := filepath.Join(repo, rel, contractFileName)
	data, err := os.ReadFile(file)
	if err != nil {
		return
	}
	db.Files = append(db.Files, file)
	db.parseFile(file, pkgPath, string(data))
}

// loadSpecFile reads a standalone spec file (e.g. /verif/lib/*.spec) with the same syntax; pkg given by "//@ package <path>" lines.
func (db *SpecDB) loadSpecFile(file string) {
	data, err := os.ReadFile(file)
	if err != nil {
		db.Errors = append(db.Errors, err.Error())
		return
	}
	db.Files = append(db.Files, file)
	db.parseFile(file, "", string(data))
}

func (db *SpecDB) errf(file string, line int, format string, args ...interface{}) {
	db.Errors = append(db.Errors, fmt.Sprintf("%s:%d: %s", file, line, fmt.Sprintf(format, args...)))
}

func (db *SpecDB) parseFile(file, pkgPath, text string) {
	lines := strings.Split(text, "\n")
	// join continuation lines ("//@ .." prefix)
	type ln struct {
		s string
		n int
	}
	var ls []ln
	for i, l := range lines {
		t := strings.TrimSpace(l)
		if !strings.HasPrefix(t, "//@") {
			continue
		}
		t = strings.TrimSpace(t[3:])
		if t == "" || strings.HasPrefix(t, "#") {
			continue
		}
		if strings.HasPrefix(t, "..") && len(ls) > 0 {
			ls[len(ls)-1].s += " " + strings.TrimSpace(t[2:])
			continue
		}
		ls = append(ls, ln{t, i + 1})
	}
	var props []string
	var cur *FuncSpec
	mode := ModeInt
	for _, l := range ls {
		word, rest := splitWord(l.s)
		switch word {
		case "package":
			pkgPath = strings.TrimSpace(rest)
			cur = nil
		case "for":
			props = strings.Fields(rest)
			cur = nil
		case "filemode":
			if strings.TrimSpace(rest) == "bv" {
				mode = ModeBV
			} else {
				mode = ModeInt
			}
		case "func":
			key := strings.TrimSpace(rest)
			cur = &FuncSpec{Pkg: pkgPath, Key: key, Props: append([]string{}, props...), LoopInv: map[int][]*Clause{}, LoopUse: map[int][]*Clause{}, Unroll: map[int]int{}, LoopMod: map[int][]string{}, File: file, Line: l.n, Mode: mode}
			k := pkgPath + ":" + key
			if _, dup := db.Funcs[k]; dup {
				db.errf(file, l.n, "duplicate contract for %s", k)
			}
			db.Funcs[k] = cur
		case "pure":
			cur = nil
			pf, err := parsePure(rest)
			if err != nil {
				db.errf(file, l.n, "pure: %v", err)
				continue
			}
			pf.Pkg = pkgPath
			pf.Src = l.s
			db.Pure[pf.Name] = pf
		case "guard", "guard?":
			cur = nil
			g, err := parseGuard(rest)
			if err != nil {
				db.errf(file, l.n, "guard: %v", err)
				continue
			}
			g.Optional = word == "guard?"
			g.Pkg, g.Props, g.Src, g.Line = pkgPath, append([]string{}, props...), l.s, l.n
			db.Guards = append(db.Guards, g)
		case "ghost":
			cur = nil
			// ghost name type [= expr]
			p := newParser(rest)
			name := p.ident()
			te, err := p.parseType()
			if err != nil {
				db.errf(file, l.n, "ghost: %v", err)
				continue
			}
			gv := &GhostVar{Pkg: pkgPath, Name: name, Type: te}
			if p.accept("=") {
				e, err := p.parseExprTop()
				if err != nil {
					db.errf(file, l.n, "ghost init: %v", err)
					continue
				}
				gv.Init = e
			}
			db.Ghosts[name] = gv
		case "axiom":
			cur = nil
			i := strings.Index(rest, "):")
			if i < 0 {
				db.errf(file, l.n, "axiom needs 'name(params): expr'")
				continue
			}
			pf, err := parsePure("func " + rest[:i+1] + " bool = " + rest[i+2:])
			if err != nil {
				db.errf(file, l.n, "axiom: %v", err)
				continue
			}
			pf.Pkg, pf.Src, pf.Axiom = pkgPath, l.s, true
			db.Pure[pf.Name] = pf
		case "invariant":
			cur = nil
			i := strings.Index(rest, ":")
			if i < 0 {
				db.errf(file, l.n, "invariant needs '<heap>: expr'")
				continue
			}
			e, err := parseExpr(rest[i+1:])
			if err != nil {
				db.errf(file, l.n, "invariant: %v", err)
				continue
			}
			db.HeapInvs = append(db.HeapInvs, &HeapInv{Pkg: pkgPath, Props: append([]string{}, props...), Heap: strings.TrimSpace(rest[:i]), Expr: e, Src: l.s})
		case "lemma":
			cur = nil
			i := strings.Index(rest, ":")
			if i < 0 {
				db.errf(file, l.n, "lemma needs name: expr")
				continue
			}
			e, err := parseExpr(rest[i+1:])
			if err != nil {
				db.errf(file, l.n, "lemma: %v", err)
				continue
			}
			db.Lemmas = append(db.Lemmas, &Lemma{Pkg: pkgPath, Props: append([]string{}, props...), Name: strings.TrimSpace(rest[:i]), Expr: e, Src: l.s, Mode: mode})
		default:
			if cur == nil {
				db.errf(file, l.n, "clause %q outside a func block", word)
				continue
			}
			if err := db.parseClause(cur, word, rest, l.n); err != nil {
				db.errf(file, l.n, "%v", err)
			}
		}
	}
}

func splitWord(s string) (string, string) {
	s = strings.TrimSpace(s)
	i := strings.IndexFunc(s, unicode.IsSpace)
	if i < 0 {
		return s, ""
	}
	return s[:i], strings.TrimSpace(s[i:])
}

func (db *SpecDB) parseClause(fs *FuncSpec, word, rest string, line int) error {
	switch word {
	case "slowcase":
		e, err := parseExpr(rest)
		if err != nil {
			return fmt.Errorf("%s: %v", word, err)
		}
		fs.Cases = append(fs.Cases, &Clause{Kind: "case", Expr: e, Src: rest, Line: line, Slow: true})
	case "requires", "ensures", "assume", "case", "ensures-assumed":
		e, err := parseExpr(rest)
		if err != nil {
			return fmt.Errorf("%s: %v", word, err)
		}
		c := &Clause{Kind: word, Expr: e, Src: rest, Line: line}
		switch word {
		case "requires":
			fs.Requires = append(fs.Requires, c)
		case "ensures":
			fs.Ensures = append(fs.Ensures, c)
		case "assume":
			fs.Assumes = append(fs.Assumes, c)
		case "case":
			fs.Cases = append(fs.Cases, c)
		case "ensures-assumed":
			fs.AssumedEnsures = append(fs.AssumedEnsures, c)
		}
	case "modifies":
		fs.HasMod = true
		for _, m := range strings.Split(rest, ",") {
			m = strings.TrimSpace(m)
			if m != "" && m != "nothing" {
				fs.Modifies = append(fs.Modifies, m)
			}
		}
	case "budget":
		fmt.Sscanf(strings.TrimSpace(rest), "%d", &fs.Budget)
	case "preserves":
		for _, m := range strings.Split(rest, ",") {
			m = strings.TrimSpace(m)
			if m != "" {
				fs.Preserves = append(fs.Preserves, m)
			}
		}
	case "mode":
		switch strings.TrimSpace(rest) {
		case "bv":
			fs.Mode = ModeBV
		case "int":
			fs.Mode = ModeInt
		default:
			return fmt.Errorf("unknown mode %q", rest)
		}
	case "deterministic":
		fs.Deterministic = true
	case "yields":
		fs.Yields = true
	case "expat":
		fs.ExPat = true
	case "maporder":
		fs.MapOrder = true
	case "inline":
		fs.Inline = true
	case "trusted":
		fs.Trusted = true
	case "panics":
		fs.Panics = true
	case "arith":
		fs.Arith = true
	case "loop":
		nstr, r2 := splitWord(rest)
		n, err := strconv.Atoi(nstr)
		if err != nil {
			return fmt.Errorf("loop ordinal: %v", err)
		}
		w2, r3 := splitWord(r2)
		switch w2 {
		case "invariant":
			e, err := parseExpr(r3)
			if err != nil {
				return fmt.Errorf("loop invariant: %v", err)
			}
			fs.LoopInv[n] = append(fs.LoopInv[n], &Clause{Kind: "invariant", Expr: e, Src: r3, Line: line, Loop: n})
		case "use":
			// explicit instance of an axiom, assumed on every back edge of the loop before the invariants are checked
			e, err := parseExpr(r3)
			if err != nil {
				return fmt.Errorf("loop use: %v", err)
			}
			if c, ok := e.(*ECall); !ok || c == nil {
				return fmt.Errorf("loop use: expected an axiom application")
			}
			fs.LoopUse[n] = append(fs.LoopUse[n], &Clause{Kind: "use", Expr: e, Src: r3, Line: line, Loop: n})
		case "unroll":
			k, err := strconv.Atoi(strings.TrimSpace(r3))
			if err != nil {
				return fmt.Errorf("loop unroll: %v", err)
			}
			fs.Unroll[n] = k
		case "modifies":
			for _, m := range strings.Split(r3, ",") {
				m = strings.TrimSpace(m)
				if m != "" {
					fs.LoopMod[n] = append(fs.LoopMod[n], m)
				}
			}
		default:
			return fmt.Errorf("unknown loop clause %q", w2)
		}
	case "at":
		// at call <callee>[#k] [before|after]: ghost <var> = <expr>
		i := strings.Index(rest, ":")
		if i < 0 {
			return fmt.Errorf("at: missing ':'")
		}
		head := strings.Fields(rest[:i])
		if len(head) < 2 || head[0] != "call" {
			return fmt.Errorf("at: expected 'call <callee>'")
		}
		gu := &GhostUpdate{When: "after", Src: rest}
		callee := head[1]
		if j := strings.Index(callee, "#"); j >= 0 {
			n, err := strconv.Atoi(callee[j+1:])
			if err != nil {
				return fmt.Errorf("at: bad ordinal")
			}
			gu.Ord = n
			callee = callee[:j]
		}
		gu.Callee = callee
		if len(head) > 2 {
			gu.When = head[2]
		}
		body := strings.TrimSpace(rest[i+1:])
		w, r := splitWord(body)
		if w != "ghost" {
			return fmt.Errorf("at: expected 'ghost x = e'")
		}
		j := strings.Index(r, "=")
		if j < 0 {
			return fmt.Errorf("at: expected '='")
		}
		gu.Var = strings.TrimSpace(r[:j])
		e, err := parseExpr(r[j+1:])
		if err != nil {
			return fmt.Errorf("at: %v", err)
		}
		gu.Expr = e
		fs.Ghost = append(fs.Ghost, gu)
	default:
		return fmt.Errorf("unknown clause %q", word)
	}
	return nil
}

func parsePure(rest string) (*PureFunc, error) {
	// func name(a T, b U) R [= expr]
	w, r := splitWord(rest)
	if w != "func" {
		return nil, fmt.Errorf("expected 'pure func'")
	}
	p := newParser(r)
	pf := &PureFunc{Name: p.ident()}
	if !p.accept("(") {
		return nil, fmt.Errorf("expected (")
	}
	for !p.accept(")") {
		name := p.ident()
		te, err := p.parseType()
		if err != nil {
			return nil, err
		}
		pf.Params = append(pf.Params, Binder{name, te})
		p.accept(",")
		if p.eof() {
			return nil, fmt.Errorf("unterminated params")
		}
	}
	te, err := p.parseType()
	if err != nil {
		return nil, err
	}
	pf.Ret = te
	if p.accept("=") {
		e, err := p.parseExprTop()
		if err != nil {
			return nil, err
		}
		pf.Body = e
	}
	if !p.eof() {
		return nil, fmt.Errorf("trailing input %q", p.peek().s)
	}
	return pf, nil
}

func parseGuard(rest string) (*Guard, error) {
	i := strings.Index(rest, ":")
	if i < 0 {
		return nil, fmt.Errorf("missing ':'")
	}
	head := strings.Fields(rest[:i])
	if len(head) < 2 {
		return nil, fmt.Errorf("guard call|store <target>")
	}
	g := &Guard{Kind: head[0], Target: head[1]}
	if j := strings.Index(g.Target, "#"); j >= 0 {
		if n, err := strconv.Atoi(g.Target[j+1:]); err == nil {
			g.Ord = n // only the n-th call of that callee inside the function
		}
		g.Target = g.Target[:j]
	}
	if len(head) > 3 && head[2] == "in" {
		g.In = head[3] // only sites inside this function (key suffix match)
		if len(head) > 5 && head[4] == "as" {
			// labelled guard: the obligations of all matching sites of one function are discharged as ONE obligation
			// named after the label, so its name does not depend on the order or number of the sites
			g.Label = head[5]
		}
	} else if len(head) > 2 {
		g.Name = head[2]
	}
	e, err := parseExpr(rest[i+1:])
	if err != nil {
		return nil, err
	}
	g.Expr = e
	return g, nil
}

func (db *SpecDB) funcSpecsSorted() []*FuncSpec {
	var keys []string
	for k := range db.Funcs {
		keys = append(keys, k)
	}
	sort.Strings(keys)
	var out []*FuncSpec
	for _, k := range keys {
		out = append(out, db.Funcs[k])
	}
	return out
}

func hasProp(props []string, id string) bool {
	for _, p := range props {
		if p == id {
			return true
		}
	}
	return false
}

// ---------------------------------------------------------------------------
// Expression AST
// ---------------------------------------------------------------------------

type Expr interface{ String() string }

type (
	EIdent struct{ Name string }
	EInt   struct{ V string }
	EStr   struct{ V string }
	EBool  struct{ V bool }
	ENil   struct{}
	EUnary struct {
		Op string
		X  Expr
	}
	EBinary struct {
		Op   string
		X, Y Expr
	}
	ECall struct {
		Fun  string
		Args []Expr
	}
	EIndex  struct{ X, I Expr }
	ESliceE struct{ X, Lo, Hi Expr }
	ESel    struct {
		X Expr
		F string
	}
	EQuant struct {
		Forall bool
		Vars   []Binder
		Body   Expr
	}
)

type Binder struct {
	Name string
	Type TypeExpr
}

// TypeExpr: textual type in contracts: int, string, bool, *T, pkg.T, []T, bvN, map[K]V
type TypeExpr struct {
	Kind string // "name", "ptr", "slice", "map"
	Name string
	Elem *TypeExpr
	Key  *TypeExpr
}

func (t TypeExpr) String() string {
	switch t.Kind {
	case "ptr":
		return "*" + t.Elem.String()
	case "slice":
		return "[]" + t.Elem.String()
	case "map":
		return "map[" + t.Key.String() + "]" + t.Elem.String()
	}
	return t.Name
}

func (e *EIdent) String() string  { return e.Name }
func (e *EInt) String() string    { return e.V }
func (e *EStr) String() string    { return strconv.Quote(e.V) }
func (e *EBool) String() string   { return fmt.Sprint(e.V) }
func (e *ENil) String() string    { return "nil" }
func (e *EUnary) String() string  { return e.Op + e.X.String() }
func (e *EBinary) String() string { return "(" + e.X.String() + " " + e.Op + " " + e.Y.String() + ")" }
func (e *ECall) String() string {
	var as []string
	for _, a := range e.Args {
		as = append(as, a.String())
	}
	return e.Fun + "(" + strings.Join(as, ", ") + ")"
}
func (e *EIndex) String() string { return e.X.String() + "[" + e.I.String() + "]" }
func (e *ESliceE) String() string {
	return e.X.String() + "[" + e.Lo.String() + ":" + e.Hi.String() + "]"
}
func (e *ESel) String() string { return e.X.String() + "." + e.F }
func (e *EQuant) String() string {
	q := "exists"
	if e.Forall {
		q = "forall"
	}
	var vs []string
	for _, v := range e.Vars {
		vs = append(vs, v.Name+" "+v.Type.String())
	}
	return "(" + q + " " + strings.Join(vs, ", ") + " :: " + e.Body.String() + ")"
}

// ---------------------------------------------------------------------------
// Lexer / parser
// ---------------------------------------------------------------------------

type tok struct {
	k string // id, int, str, op, eof
	s string
}

type parser struct {
	toks []tok
	pos  int
	err  error
}

var ops3 = []string{"<==>"}
var ops2 = []string{"==>", "==", "!=", "<=", ">=", "&&", "||", "<<", ">>", "::"}

func lex(s string) ([]tok, error) {
	var out []tok
	i := 0
	for i < len(s) {
		c := s[i]
		switch {
		case c == ' ' || c == '\t':
			i++
		case unicode.IsLetter(rune(c)) || c == '_':
			j := i
			for j < len(s) && (unicode.IsLetter(rune(s[j])) || unicode.IsDigit(rune(s[j])) || s[j] == '_' || s[j] == '$') {
				j++
			}
			out = append(out, tok{"id", s[i:j]})
			i = j
		case unicode.IsDigit(rune(c)):
			j := i
			for j < len(s) && (unicode.IsDigit(rune(s[j])) || unicode.IsLetter(rune(s[j]))) {
				j++
			}
			out = append(out, tok{"int", s[i:j]})
			i = j
		case c == '"':
			j := i + 1
			for j < len(s) && s[j] != '"' {
				if s[j] == '\\' {
					j++
				}
				j++
			}
			if j >= len(s) {
				return nil, fmt.Errorf("unterminated string")
			}
			v, err := strconv.Unquote(s[i : j+1])
			if err != nil {
				return nil, err
			}
			out = append(out, tok{"str", v})
			i = j + 1
		default:
			matched := false
			for _, op := range ops3 {
				if strings.HasPrefix(s[i:], op) {
					out = append(out, tok{"op", op})
					i += len(op)
					matched = true
					break
				}
			}
			if matched {
				continue
			}
			for _, op := range ops2 {
				if strings.HasPrefix(s[i:], op) {
					out = append(out, tok{"op", op})
					i += len(op)
					matched = true
					break
				}
			}
			if matched {
				continue
			}
			if strings.ContainsRune("+-*/%&|^!<>()[].,:=", rune(c)) {
				out = append(out, tok{"op", string(c)})
				i++
				continue
			}
			return nil, fmt.Errorf("unexpected character %q", c)
		}
	}
	out = append(out, tok{"eof", ""})
	return out, nil
}

func newParser(s string) *parser {
	toks, err := lex(s)
	return &parser{toks: toks, err: err}
}

func parseExpr(s string) (Expr, error) {
	p := newParser(s)
	if p.err != nil {
		return nil, p.err
	}
	e, err := p.parseExprTop()
	if err != nil {
		return nil, err
	}
	if !p.eof() {
		return nil, fmt.Errorf("trailing input at %q", p.peek().s)
	}
	return e, nil
}

func (p *parser) peek() tok {
	if p.toks == nil {
		return tok{"eof", ""}
	}
	return p.toks[p.pos]
}
func (p *parser) next() tok {
	t := p.peek()
	if t.k != "eof" {
		p.pos++
	}
	return t
}
func (p *parser) eof() bool { return p.peek().k == "eof" }
func (p *parser) accept(s string) bool {
	t := p.peek()
	if (t.k == "op" || t.k == "id") && t.s == s {
		p.pos++
		return true
	}
	return false
}
func (p *parser) ident() string {
	t := p.peek()
	if t.k == "id" {
		p.pos++
		return t.s
	}
	return ""
}

func (p *parser) parseType() (TypeExpr, error) {
	if p.accept("*") {
		e, err := p.parseType()
		if err != nil {
			return TypeExpr{}, err
		}
		return TypeExpr{Kind: "ptr", Elem: &e}, nil
	}
	if p.accept("[") {
		if !p.accept("]") {
			return TypeExpr{}, fmt.Errorf("expected ]")
		}
		e, err := p.parseType()
		if err != nil {
			return TypeExpr{}, err
		}
		return TypeExpr{Kind: "slice", Elem: &e}, nil
	}
	name := p.ident()
	if name == "" {
		return TypeExpr{}, fmt.Errorf("expected type, got %q", p.peek().s)
	}
	if name == "map" && p.accept("[") {
		k, err := p.parseType()
		if err != nil {
			return TypeExpr{}, err
		}
		if !p.accept("]") {
			return TypeExpr{}, fmt.Errorf("expected ]")
		}
		v, err := p.parseType()
		if err != nil {
			return TypeExpr{}, err
		}
		return TypeExpr{Kind: "map", Key: &k, Elem: &v}, nil
	}
	if p.accept(".") {
		name += "." + p.ident()
	}
	return TypeExpr{Kind: "name", Name: name}, nil
}

func (p *parser) parseExprTop() (Expr, error) {
	if p.err != nil {
		return nil, p.err
	}
	return p.parseBin(0)
}

// precedence levels
var binPrec = map[string]int{
	"<==>": 1, "==>": 2, "||": 3, "&&": 4,
	"==": 5, "!=": 5, "<": 5, "<=": 5, ">": 5, ">=": 5, "in": 5,
	"|": 6, "^": 6, "&": 7, "<<": 8, ">>": 8, "+": 9, "-": 9, "*": 10, "/": 10, "%": 10,
}

func (p *parser) parseBin(minPrec int) (Expr, error) {
	lhs, err := p.parseUnary()
	if err != nil {
		return nil, err
	}
	for {
		t := p.peek()
		if t.k != "op" && !(t.k == "id" && t.s == "in") {
			return lhs, nil
		}
		prec, ok := binPrec[t.s]
		if !ok || prec < minPrec {
			return lhs, nil
		}
		p.next()
		var rhs Expr
		if t.s == "==>" || t.s == "<==>" {
			rhs, err = p.parseBin(prec) // right assoc
		} else {
			rhs, err = p.parseBin(prec + 1)
		}
		if err != nil {
			return nil, err
		}
		lhs = &EBinary{Op: t.s, X: lhs, Y: rhs}
	}
}

func (p *parser) parseUnary() (Expr, error) {
	t := p.peek()
	if t.k == "op" && (t.s == "!" || t.s == "-" || t.s == "^" || t.s == "*" || t.s == "&") {
		p.next()
		x, err := p.parseUnary()
		if err != nil {
			return nil, err
		}
		return &EUnary{Op: t.s, X: x}, nil
	}
	return p.parsePostfix()
}

func (p *parser) parsePostfix() (Expr, error) {
	x, err := p.parsePrimary()
	if err != nil {
		return nil, err
	}
	for {
		switch {
		case p.accept("."):
			f := p.ident()
			if f == "" {
				return nil, fmt.Errorf("expected field name after '.'")
			}
			x = &ESel{X: x, F: f}
		case p.accept("["):
			var lo Expr
			if p.peek().s != ":" {
				lo, err = p.parseExprTop()
				if err != nil {
					return nil, err
				}
			}
			if p.accept(":") {
				var hi Expr
				if p.peek().s != "]" {
					hi, err = p.parseExprTop()
					if err != nil {
						return nil, err
					}
				}
				if !p.accept("]") {
					return nil, fmt.Errorf("expected ]")
				}
				x = &ESliceE{X: x, Lo: lo, Hi: hi}
				continue
			}
			if !p.accept("]") {
				return nil, fmt.Errorf("expected ]")
			}
			x = &EIndex{X: x, I: lo}
		case p.peek().k == "op" && p.peek().s == "(":
			// call: only on identifiers / qualified selectors
			name := ""
			switch f := x.(type) {
			case *EIdent:
				name = f.Name
			case *ESel:
				if id, ok := f.X.(*EIdent); ok {
					name = id.Name + "." + f.F
				}
			}
			if name == "" {
				return nil, fmt.Errorf("call of non-identifier")
			}
			p.next()
			var args []Expr
			for !p.accept(")") {
				a, err := p.parseExprTop()
				if err != nil {
					return nil, err
				}
				args = append(args, a)
				if !p.accept(",") && p.peek().s != ")" {
					return nil, fmt.Errorf("expected , or ) in call")
				}
			}
			x = &ECall{Fun: name, Args: args}
		default:
			return x, nil
		}
	}
}

func (p *parser) parsePrimary() (Expr, error) {
	t := p.next()
	switch t.k {
	case "int":
		return &EInt{V: t.s}, nil
	case "str":
		return &EStr{V: t.s}, nil
	case "id":
		switch t.s {
		case "true":
			return &EBool{true}, nil
		case "false":
			return &EBool{false}, nil
		case "nil":
			return &ENil{}, nil
		case "forall", "exists":
			q := &EQuant{Forall: t.s == "forall"}
			for {
				name := p.ident()
				if name == "" {
					return nil, fmt.Errorf("expected bound variable")
				}
				if p.accept("in") {
					// bounded range: expanded syntactically at evaluation time
					lo := p.next()
					if !(p.accept(".") && p.accept(".")) {
						return nil, fmt.Errorf("expected lo..hi after 'in'")
					}
					hi := p.next()
					if lo.k != "int" || hi.k != "int" {
						return nil, fmt.Errorf("range bounds must be integer literals")
					}
					q.Vars = append(q.Vars, Binder{name, TypeExpr{Kind: "range", Name: lo.s + ":" + hi.s}})
					if p.accept(",") {
						continue
					}
					break
				}
				te, err := p.parseType()
				if err != nil {
					return nil, err
				}
				q.Vars = append(q.Vars, Binder{name, te})
				if p.accept(",") {
					continue
				}
				break
			}
			if !p.accept("::") {
				return nil, fmt.Errorf("expected :: in quantifier")
			}
			body, err := p.parseBin(0)
			if err != nil {
				return nil, err
			}
			q.Body = body
			return q, nil
		}
		return &EIdent{Name: t.s}, nil
	case "op":
		if t.s == "(" {
			e, err := p.parseExprTop()
			if err != nil {
				return nil, err
			}
			if !p.accept(")") {
				return nil, fmt.Errorf("expected )")
			}
			return e, nil
		}
	}
	return nil, fmt.Errorf("unexpected token %q", t.s)
}
