package main

import (
	"fmt"
	"go/types"
	"os"
	"sort"
	"strings"

	"golang.org/x/tools/go/packages"
	"golang.org/x/tools/go/ssa"
)

// Program is the loaded view of /repo: typed packages + SSA for the target packages only.
type Program struct {
	RepoDir string
	Module  string
	Pkgs    []*packages.Package
	All     map[string]*packages.Package // by import path (transitive)
	SSA     *ssa.Program
	SSAPkgs map[string]*ssa.Package
	Targets []string // import paths of target packages
}

func repoDir() string {
	if d := os.Getenv("TVC_REPO"); d != "" {
		return d
	}
	return "/repo"
}

const repoModule = "github.com/AliyunContainerService/terway"

// loadProgram loads the given package patterns (relative to the repo root, e.g. "./pkg/tc")
// from the repo's current working tree with tags default_build,verif and builds SSA for them.
func loadProgram(patterns []string) (*Program, error) {
	dir := repoDir()
	cfg := &packages.Config{
		Mode: packages.NeedName | packages.NeedFiles | packages.NeedCompiledGoFiles | packages.NeedImports |
			packages.NeedDeps | packages.NeedTypes | packages.NeedSyntax | packages.NeedTypesInfo | packages.NeedTypesSizes | packages.NeedModule,
		Dir:        dir,
		BuildFlags: []string{"-tags=default_build,verif"},
		Env:        append(os.Environ(), "GOFLAGS=-mod=mod", "GOPROXY=off"),
	}
	pkgs, err := packages.Load(cfg, patterns...)
	if err != nil {
		return nil, err
	}
	var errs []string
	packages.Visit(pkgs, nil, func(p *packages.Package) {
		if strings.HasPrefix(p.PkgPath, repoModule) {
			for _, e := range p.Errors {
				errs = append(errs, e.Error())
			}
		}
	})
	if len(errs) > 0 {
		return nil, fmt.Errorf("package load errors:\n%s", strings.Join(errs, "\n"))
	}
	p := &Program{RepoDir: dir, Module: repoModule, Pkgs: pkgs, All: map[string]*packages.Package{}, SSAPkgs: map[string]*ssa.Package{}}
	packages.Visit(pkgs, nil, func(pk *packages.Package) { p.All[pk.PkgPath] = pk })

	prog := ssa.NewProgram(pkgs[0].Fset, ssa.InstantiateGenerics|ssa.GlobalDebug)
	// create SSA packages for every dependency (needed for cross-package function objects), build only targets
	created := map[*types.Package]bool{}
	var paths []string
	for path := range p.All {
		paths = append(paths, path)
	}
	sort.Strings(paths)
	// create in dependency order
	var visit func(pk *packages.Package)
	visit = func(pk *packages.Package) {
		if pk.Types == nil || created[pk.Types] {
			return
		}
		created[pk.Types] = true
		for _, imp := range pk.Imports {
			visit(imp)
		}
		if pk.TypesInfo != nil && len(pk.Syntax) > 0 {
			prog.CreatePackage(pk.Types, pk.Syntax, pk.TypesInfo, true)
		} else {
			prog.CreatePackage(pk.Types, nil, nil, true)
		}
	}
	for _, path := range paths {
		visit(p.All[path])
	}
	p.SSA = prog
	for _, pk := range pkgs {
		sp := prog.Package(pk.Types)
		if sp == nil {
			return nil, fmt.Errorf("no ssa package for %s", pk.PkgPath)
		}
		sp.Build()
		p.SSAPkgs[pk.PkgPath] = sp
		p.Targets = append(p.Targets, pk.PkgPath)
	}
	sort.Strings(p.Targets)
	return p, nil
}

// lookupFunc finds an SSA function in the target packages by key:
//   "pkgpath:Name", "pkgpath:Recv.Name", with optional "$N" anonymous suffixes.
func (p *Program) lookupFunc(pkgPath, key string) *ssa.Function {
	sp := p.SSAPkgs[pkgPath]
	if sp == nil {
		return nil
	}
	base := key
	var anon []string
	if i := strings.Index(key, "$"); i >= 0 {
		base = key[:i]
		anon = strings.Split(key[i+1:], "$")
	}
	var fn *ssa.Function
	if i := strings.Index(base, "."); i >= 0 {
		recv, name := strings.TrimPrefix(base[:i], "*"), base[i+1:]
		obj := sp.Pkg.Scope().Lookup(recv)
		if obj == nil {
			return nil
		}
		tn, ok := obj.(*types.TypeName)
		if !ok {
			return nil
		}
		for _, t := range []types.Type{tn.Type(), types.NewPointer(tn.Type())} {
			ms := p.SSA.MethodSets.MethodSet(t)
			for j := 0; j < ms.Len(); j++ {
				sel := ms.At(j)
				if sel.Obj().Name() == name && sel.Obj().Pkg() == sp.Pkg {
					f := p.SSA.FuncValue(sel.Obj().(*types.Func))
					if f != nil {
						fn = f
					}
				}
			}
			if fn != nil {
				break
			}
		}
	} else {
		fn = sp.Func(base)
	}
	if fn == nil {
		return nil
	}
	for _, a := range anon {
		var n int
		fmt.Sscanf(a, "%d", &n)
		if n < 1 || n > len(fn.AnonFuncs) {
			return nil
		}
		fn = fn.AnonFuncs[n-1]
	}
	return fn
}

// allFunctions returns every function (incl. methods and anonymous functions) declared in the target packages,
// sorted by name for determinism.
func (p *Program) allFunctions() []*ssa.Function {
	var out []*ssa.Function
	seen := map[*ssa.Function]bool{}
	var add func(f *ssa.Function)
	add = func(f *ssa.Function) {
		if f == nil || seen[f] || f.Blocks == nil {
			return
		}
		seen[f] = true
		out = append(out, f)
		for _, a := range f.AnonFuncs {
			add(a)
		}
	}
	for _, path := range p.Targets {
		sp := p.SSAPkgs[path]
		for _, m := range sp.Members {
			switch m := m.(type) {
			case *ssa.Function:
				add(m)
			case *ssa.Type:
				for _, t := range []types.Type{m.Type(), types.NewPointer(m.Type())} {
					ms := p.SSA.MethodSets.MethodSet(t)
					for j := 0; j < ms.Len(); j++ {
						if fobj, ok := ms.At(j).Obj().(*types.Func); ok && fobj.Pkg() == sp.Pkg {
							f := p.SSA.FuncValue(fobj)
							if f != nil && f.Synthetic == "" {
								add(f)
							}
						}
					}
				}
			}
		}
	}
	sort.Slice(out, func(i, j int) bool { return funcKey(out[i]) < funcKey(out[j]) })
	return out
}

// funcKey is the stable name used in obligation names: "<pkgpath>.<Recv>.<Name>$N".
func funcKey(f *ssa.Function) string {
	if f.Parent() != nil {
		// anonymous: Parent$k
		par := f.Parent()
		for i, a := range par.AnonFuncs {
			if a == f {
				return fmt.Sprintf("%s$%d", funcKey(par), i+1)
			}
		}
	}
	pkg := ""
	if f.Pkg != nil {
		pkg = f.Pkg.Pkg.Path()
	} else if f.Object() != nil && f.Object().Pkg() != nil {
		pkg = f.Object().Pkg().Path()
	}
	pkg = strings.TrimPrefix(pkg, repoModule+"/")
	if f.Signature.Recv() != nil {
		rt := f.Signature.Recv().Type()
		if pt, ok := rt.(*types.Pointer); ok {
			rt = pt.Elem()
		}
		if nt, ok := rt.(*types.Named); ok {
			return pkg + "." + nt.Obj().Name() + "." + f.Name()
		}
	}
	return pkg + "." + f.Name()
}
