package main

import (
	"fmt"
	"os"
	"go/token"
	"go/types"
	"sort"
	"strings"

	"golang.org/x/tools/go/ssa"
)

type Engine struct {
	prog       *Program
	specs      *SpecDB
	filterProp string
	heapStruct map[string]types.Type // field heap name -> struct type
	built      map[*ssa.Package]bool
	thorough   bool
	byName     map[string][]*types.Package
}

func newEngine(p *Program, specs *SpecDB) *Engine {
	e := &Engine{prog: p, specs: specs, heapStruct: map[string]types.Type{}, built: map[*ssa.Package]bool{}, byName: map[string][]*types.Package{}}
	for _, pk := range p.All {
		if pk.Types != nil {
			e.byName[pk.Types.Name()] = append(e.byName[pk.Types.Name()], pk.Types)
		}
	}
	for _, ps := range e.byName {
		sort.Slice(ps, func(i, j int) bool { return ps[i].Path() < ps[j].Path() })
	}
	return e
}

func (e *Engine) isRepoFunc(f *ssa.Function) bool {
	var p *types.Package
	if f.Pkg != nil {
		p = f.Pkg.Pkg
	} else if f.Object() != nil {
		p = f.Object().Pkg()
	} else if f.Parent() != nil {
		return e.isRepoFunc(f.Parent())
	}
	return p != nil && strings.HasPrefix(p.Path(), repoModule)
}

// ensureBuilt builds SSA bodies of the callee's package on demand (repo packages only).
func (e *Engine) ensureBuilt(f *ssa.Function) {
	pkg := f.Pkg
	if pkg == nil && f.Parent() != nil {
		pkg = f.Parent().Pkg
	}
	if pkg == nil && f.Origin() != nil {
		pkg = f.Origin().Pkg
	}
	if pkg == nil || e.built[pkg] {
		return
	}
	e.built[pkg] = true
	if _, isTarget := e.prog.SSAPkgs[pkg.Pkg.Path()]; isTarget {
		return
	}
	if strings.HasPrefix(pkg.Pkg.Path(), repoModule) {
		pkg.Build()
	}
}

func (e *Engine) pkgByPath(path string) *types.Package {
	if pk, ok := e.prog.All[path]; ok {
		return pk.Types
	}
	return nil
}

// findPackage resolves a package name used in a contract (from the viewpoint of package `from`).
func (e *Engine) findPackage(from *types.Package, name string) *types.Package {
	if from != nil {
		// import aliases used in the package's own files (e.g. aliyunClient "…/pkg/aliyun/client")
		if pk, ok := e.prog.All[from.Path()]; ok {
			for _, f := range pk.Syntax {
				for _, is := range f.Imports {
					if is.Name != nil && is.Name.Name == name {
						path := strings.Trim(is.Path.Value, "\"")
						if p := e.pkgByPath(path); p != nil {
							return p
						}
					}
				}
			}
		}
		var cands []*types.Package
		for _, imp := range from.Imports() {
			if imp.Name() == name {
				cands = append(cands, imp)
			}
		}
		if len(cands) > 1 {
			// two imports share the package name (one of them aliased in the source): the one imported WITHOUT an alias is
			// the one the source calls by that name
			if pk, ok := e.prog.All[from.Path()]; ok {
				for _, f := range pk.Syntax {
					for _, is := range f.Imports {
						if is.Name != nil {
							continue
						}
						path := strings.Trim(is.Path.Value, "\"")
						for _, c := range cands {
							if c.Path() == path {
								return c
							}
						}
					}
				}
			}
		}
		for _, c := range cands {
			if strings.HasPrefix(c.Path(), repoModule) {
				return c
			}
		}
		if len(cands) > 0 {
			return cands[0]
		}
		// the package itself (Go code never qualifies its own names, so an import of that name wins above)
		if from.Name() == name {
			return from
		}
	}
	// fall back: unique package of that name in the program, preferring repo packages
	ps := e.byName[name]
	var repo []*types.Package
	for _, p := range ps {
		if strings.HasPrefix(p.Path(), repoModule) {
			repo = append(repo, p)
		}
	}
	if len(repo) >= 1 {
		return repo[0]
	}
	if len(ps) >= 1 {
		return ps[0]
	}
	// well-known aliases
	alias := map[string]string{"corev1": "k8s.io/api/core/v1", "metav1": "k8s.io/apimachinery/pkg/apis/meta/v1", "networkv1beta1": repoModule + "/pkg/apis/network.alibabacloud.com/v1beta1"}
	if path, ok := alias[name]; ok {
		return e.pkgByPath(path)
	}
	return nil
}

func (e *Engine) specFor(f *ssa.Function) *FuncSpec {
	if f == nil {
		return nil
	}
	key := funcKey(f)
	// funcKey = "<relpkg>.<Recv>.<Name>$N"; spec keys are "<fullpkg>:<Recv.Name$N>"
	var pkgPath string
	g := f
	for g.Parent() != nil {
		g = g.Parent()
	}
	if g.Pkg != nil {
		pkgPath = g.Pkg.Pkg.Path()
	} else if g.Object() != nil && g.Object().Pkg() != nil {
		pkgPath = g.Object().Pkg().Path()
	} else {
		return nil
	}
	rel := strings.TrimPrefix(pkgPath, repoModule+"/")
	short := strings.TrimPrefix(key, rel+".")
	if sp, ok := e.specs.Funcs[pkgPath+":"+short]; ok {
		return sp
	}
	// instantiated generic: "Cache.Get[pkg.T]" -> "Cache.Get"
	if i := strings.Index(short, "["); i >= 0 {
		return e.specs.Funcs[pkgPath+":"+short[:i]]
	}
	return nil
}

// specActive: contracts tagged `for Cxx ...` are used only while checking one of those properties.
func (e *Engine) specActive(sp *FuncSpec) bool {
	if e.filterProp == "" || len(sp.Props) == 0 {
		return true
	}
	for _, p := range sp.Props {
		if p == e.filterProp {
			return true
		}
	}
	return false
}

// ifaceSpec: contract for an interface method call, keyed "<IfaceName>.<Method>" in the interface's package.
func (e *Engine) ifaceSpec(c *ssa.CallCommon) *FuncSpec {
	if !c.IsInvoke() {
		return nil
	}
	t := c.Value.Type()
	nt, ok := t.(*types.Named)
	if !ok {
		if a, isAlias := t.(*types.Alias); isAlias {
			if n2, ok2 := types.Unalias(a).(*types.Named); ok2 {
				nt = n2
				ok = true
			}
		}
		if !ok {
			return nil
		}
	}
	if nt.Obj().Pkg() == nil {
		return nil
	}
	return e.specs.Funcs[nt.Obj().Pkg().Path()+":"+nt.Obj().Name()+"."+c.Method.Name()]
}

func (e *Engine) guardMatchesField(g *Guard, heapName string) bool {
	// heap names are |H_<pkg>_<Type>.<field>|; guard targets are "Type.field" or "pkg.Type.field"
	h := strings.Trim(heapName, "|")
	h = strings.TrimPrefix(h, "H_")
	t := mangle(g.Target[:strings.LastIndex(g.Target, ".")]) + g.Target[strings.LastIndex(g.Target, "."):]
	if h == t {
		return true
	}
	return strings.HasSuffix(h, "_"+t)
}

// resolveType maps a contract type expression to a Go type (nil for ghost sorts) and an SMT sort.
func (e *Engine) resolveType(x *FnExec, pkg *types.Package, te TypeExpr) (types.Type, string, error) {
	switch te.Kind {
	case "ptr":
		t, _, err := e.resolveType(x, pkg, *te.Elem)
		if err != nil {
			return nil, "", err
		}
		if t == nil {
			return nil, "", fmt.Errorf("pointer to ghost type")
		}
		pt := types.NewPointer(t)
		return pt, "Ref", nil
	case "slice":
		t, _, err := e.resolveType(x, pkg, *te.Elem)
		if err != nil {
			return nil, "", err
		}
		if t == nil {
			return nil, "", fmt.Errorf("slice of ghost type")
		}
		return types.NewSlice(t), "Slice", nil
	case "map":
		k, ks, err := e.resolveType(x, pkg, *te.Key)
		if err != nil {
			return nil, "", err
		}
		v, vs, err := e.resolveType(x, pkg, *te.Elem)
		if err != nil {
			return nil, "", err
		}
		if k != nil && v != nil {
			return types.NewMap(k, v), "Ref", nil
		}
		return nil, fmt.Sprintf("(Array %s %s)", ks, vs), nil
	}
	name := te.Name
	switch name {
	case "ref":
		return types.Typ[types.UnsafePointer], "Ref", nil
	case "mathint":
		return nil, "Int", nil
	case "blob":
		x.q.declareSortOnce("Blob")
		return nil, "Blob", nil
	case "set_ref":
		return nil, "(Array Ref Bool)", nil
	case "set_str":
		return nil, "(Array Str Bool)", nil
	case "set_int":
		return nil, fmt.Sprintf("(Array %s Bool)", x.q.intSort()), nil
	case "byte":
		return types.Typ[types.Uint8], x.q.sortOf(types.Typ[types.Uint8]), nil
	case "error":
		t := types.Universe.Lookup("error").Type()
		return t, "Iface", nil
	case "any":
		t := types.Universe.Lookup("any").Type()
		return t, "Iface", nil
	}
	if strings.HasPrefix(name, "bv") {
		var w int
		if _, err := fmt.Sscanf(name, "bv%d", &w); err == nil && w > 0 {
			return nil, fmt.Sprintf("(_ BitVec %d)", w), nil
		}
	}
	if obj := types.Universe.Lookup(name); obj != nil {
		if tn, ok := obj.(*types.TypeName); ok {
			return tn.Type(), x.q.sortOf(tn.Type()), nil
		}
	}
	var scopePkg *types.Package = pkg
	tname := name
	if i := strings.Index(name, "."); i >= 0 {
		scopePkg = e.findPackage(pkg, name[:i])
		tname = name[i+1:]
		if scopePkg == nil {
			return nil, "", fmt.Errorf("unknown package %q in type %s", name[:i], name)
		}
	}
	if scopePkg == nil {
		return nil, "", fmt.Errorf("cannot resolve type %s (no package context)", name)
	}
	obj := scopePkg.Scope().Lookup(tname)
	tn, ok := obj.(*types.TypeName)
	if !ok {
		return nil, "", fmt.Errorf("unknown type %s", name)
	}
	return tn.Type(), x.q.sortOf(tn.Type()), nil
}

func (e *Engine) resolveTypeIn(x *FnExec, declPkg string, fallback *types.Package, te TypeExpr) (types.Type, string, error) {
	if p := e.pkgByPath(declPkg); p != nil {
		return e.resolveType(x, p, te)
	}
	return e.resolveType(x, fallback, te)
}

// resolveHeapSpec: "Type.field", "pkg.Type.field", "elem T", "box T", "map K V", "global name", "alloc"
func (e *Engine) resolveHeapSpec(x *FnExec, pkgPath, m string) ([]string, error) {
	pkg := e.pkgByPath(pkgPath)
	fs := strings.Fields(m)
	parseT := func(s string) (types.Type, error) {
		p := newParser(s)
		te, err := p.parseType()
		if err != nil {
			return nil, err
		}
		t, _, err := e.resolveType(x, pkg, te)
		if err != nil {
			return nil, err
		}
		if t == nil {
			return nil, fmt.Errorf("ghost type in heap spec")
		}
		return t, nil
	}
	switch fs[0] {
	case "elem":
		t, err := parseT(fs[1])
		if err != nil {
			return nil, err
		}
		n, s := x.elemHeap(t)
		x.q.heapDecl(n, s)
		return []string{n}, nil
	case "box":
		t, err := parseT(fs[1])
		if err != nil {
			return nil, err
		}
		n, s := x.boxHeap(t)
		x.q.heapDecl(n, s)
		return []string{n}, nil
	case "map":
		k, err := parseT(fs[1])
		if err != nil {
			return nil, err
		}
		v, err := parseT(fs[2])
		if err != nil {
			return nil, err
		}
		d, vh, l, ks, vs := x.mapHeaps(types.NewMap(k, v))
		x.q.heapDecl(d, fmt.Sprintf("(Array Ref (Array %s Bool))", ks))
		x.q.heapDecl(vh, fmt.Sprintf("(Array Ref (Array %s %s))", ks, vs))
		x.q.heapDecl(l, fmt.Sprintf("(Array Ref %s)", x.q.intSort()))
		return []string{d, vh, l}, nil
	case "global":
		p := pkg
		name := fs[1]
		if i := strings.Index(name, "."); i >= 0 {
			p = e.findPackage(pkg, name[:i])
			name = name[i+1:]
		}
		if p == nil {
			return nil, fmt.Errorf("no package for global %s", fs[1])
		}
		sp := e.prog.SSA.Package(p)
		if sp == nil {
			return nil, fmt.Errorf("no ssa package")
		}
		g, ok := sp.Members[name].(*ssa.Global)
		if !ok {
			return nil, fmt.Errorf("no global %s", fs[1])
		}
		n, s := x.globalHeap(g)
		x.q.heapDecl(n, s)
		return []string{n}, nil
	case "ghost":
		return []string{"$ghost:" + fs[1]}, nil
	}
	// Type.field
	i := strings.LastIndex(m, ".")
	if i < 0 {
		return nil, fmt.Errorf("bad heap spec %q", m)
	}
	t, err := parseT(m[:i])
	if err != nil {
		return nil, err
	}
	stt, ok := t.Underlying().(*types.Struct)
	if !ok {
		return nil, fmt.Errorf("%s is not a struct", m[:i])
	}
	fname := m[i+1:]
	if fname == "*" {
		var out []string
		for j := 0; j < stt.NumFields(); j++ {
			n, s, _ := x.fieldHeap(t, j)
			x.q.heapDecl(n, s)
			out = append(out, n)
		}
		return out, nil
	}
	for j := 0; j < stt.NumFields(); j++ {
		if stt.Field(j).Name() == fname {
			n, s, _ := x.fieldHeap(t, j)
			x.q.heapDecl(n, s)
			return []string{n}, nil
		}
	}
	return nil, fmt.Errorf("no field %s in %s", fname, m[:i])
}

// ---------------------------------------------------------------------------
// Verifying one function
// ---------------------------------------------------------------------------

type FuncResult struct {
	Fn      *ssa.Function
	Key     string
	Spec    *FuncSpec
	Obls    []*Obligation
	Errors  []string
	Notes   []string
	Trusted []string
	Mode    Mode
	Blocks  int
	Skipped string
}

// verifyFunction verifies fn against spec; with `case` clauses it runs once per case plus an exhaustiveness obligation.
func (e *Engine) verifyFunction(fn *ssa.Function, spec *FuncSpec, props []string) *FuncResult {
	if spec == nil || len(spec.Cases) == 0 {
		return e.verifyFunctionCase(fn, spec, props, -1)
	}
	var all *FuncResult
	for k := range spec.Cases {
		if spec.Cases[k].Slow && !e.thorough {
			if all == nil {
				all = &FuncResult{Fn: fn, Key: funcKey(fn), Spec: spec, Mode: spec.Mode}
			}
			all.Notes = append(all.Notes, fmt.Sprintf("%s: case %d (%s) is only verified in the thorough tier", funcKey(fn), k+1, spec.Cases[k].Src))
			continue
		}
		r := e.verifyFunctionCase(fn, spec, props, k)
		if all == nil {
			all = r
			continue
		}
		all.Obls = append(all.Obls, r.Obls...)
		all.Errors = append(all.Errors, r.Errors...)
		all.Notes = append(all.Notes, r.Notes...)
		all.Trusted = append(all.Trusted, r.Trusted...)
	}
	r := e.verifyFunctionCase(fn, spec, props, len(spec.Cases))
	all.Obls = append(all.Obls, r.Obls...)
	all.Errors = append(all.Errors, r.Errors...)
	return all
}

func (e *Engine) verifyFunctionCase(fn *ssa.Function, spec *FuncSpec, props []string, caseIdx int) *FuncResult {
	res := &FuncResult{Fn: fn, Key: funcKey(fn), Spec: spec}
	if spec == nil {
		spec = &FuncSpec{Key: funcKey(fn), LoopInv: map[int][]*Clause{}, LoopUse: map[int][]*Clause{}, Unroll: map[int]int{}, LoopMod: map[int][]string{}}
		if fn.Pkg != nil {
			spec.Pkg = fn.Pkg.Pkg.Path()
		}
	}
	res.Mode = spec.Mode
	if fn.Blocks == nil {
		res.Skipped = "no body"
		return res
	}
	res.Blocks = len(fn.Blocks)
	x := &FnExec{eng: e, q: newQ(spec.Mode), top: fn, topSpec: spec, mode: spec.Mode, ordinals: map[string]int{}, panics: spec.Panics, arithChk: spec.Arith,
		ghost: map[string]string{}, props: props, trusted: map[string]bool{}, depthLimit: 6, coverReturns: len(spec.Ensures) > 0 || spec.Panics}
	defer func() {
		if r := recover(); r != nil {
			res.Errors = append(res.Errors, fmt.Sprintf("internal error in %s: %v", res.Key, r))
			res.Obls = nil
		}
	}()
	st := &State{heap: map[string]string{}}
	// parameters
	var params []Val
	for _, p := range fn.Params {
		v := x.havocVal("p_"+p.Name(), p.Type(), "true")
		x.assumeAllocT(st, "true", v.S, p.Type(), 1)
		params = append(params, v)
		x.addInput(p.Name(), v)
	}
	var free []Val
	for _, fv := range fn.FreeVars {
		v := x.havocVal("fv_"+fv.Name(), fv.Type(), "true")
		x.q.assert(not(eq(v.S, "nil")))
		x.assumeAllocated(st, "true", v.S)
		free = append(free, v)
	}
	fr := x.newFrame(fn, spec, params, free, 0)
	fr.oldState = st.clone()
	// preconditions
	ctx := &evalCtx{env: map[ssa.Value]Val{}, st: st, old: st, block: nil}
	if fn.Pkg != nil {
		ctx.pkg = fn.Pkg.Pkg
	}
	for _, r := range append(append([]*Clause{}, spec.Requires...), spec.Assumes...) {
		g, err := x.evalBool(fr, r.Expr, ctx)
		if err != nil {
			x.errf("%s: %s %q: %v", res.Key, r.Kind, r.Src, err)
			continue
		}
		x.q.assert(g)
		if r.Kind == "assume" {
			x.trusted["assumed fact in "+res.Key+": "+r.Src] = true
		}
	}
	// ghost initial values
	for _, name := range sortedGhostNames(e.specs) {
		gv := e.specs.Ghosts[name]
		if gv.Init == nil {
			continue
		}
		cur, err := x.ghostGet(st, gv, ctx)
		if err != nil {
			continue
		}
		iv, err := x.eval(fr, gv.Init, ctx)
		if err != nil {
			x.errf("ghost %s init: %v", name, err)
			continue
		}
		iv, _ = x.coerce(iv, cur)
		x.q.assert(eq(cur.S, iv.S))
	}
	if caseIdx >= 0 && caseIdx == len(spec.Cases) {
		// exhaustiveness of the case split under the precondition
		var cs []string
		for _, cc := range spec.Cases {
			g, err := x.evalBool(fr, cc.Expr, ctx)
			if err != nil {
				x.errf("%s: case %q: %v", res.Key, cc.Src, err)
				continue
			}
			cs = append(cs, g)
		}
		x.addObl("cases", "exhaustive", "true", or(cs...), "case split is exhaustive", token.NoPos)
		res.Obls = x.obls
		res.Errors = append(res.Errors, x.errs...)
		return res
	}
	if caseIdx >= 0 {
		cc := spec.Cases[caseIdx]
		g, err := x.evalBool(fr, cc.Expr, ctx)
		if err != nil {
			x.errf("%s: case %q: %v", res.Key, cc.Src, err)
		} else {
			x.q.assert(g)
		}
		x.caseTag = fmt.Sprintf("@case%d", caseIdx+1)
	}
	if len(spec.Requires)+len(spec.Assumes) > 0 {
		o := x.addObl("vacuity", "pre", "true", "false", "precondition is satisfiable (expected sat)", token.NoPos)
		o.Vacuity = true
	}
	ex, err := x.runBody(fr, st, "true")
	if err != nil {
		res.Errors = append(res.Errors, fmt.Sprintf("%s: %v", res.Key, err))
		res.Obls = nil
		return res
	}
	x.flushLabelledGuards()
	// postconditions
	extra := map[string]Val{}
	for i, r := range ex.results {
		extra[fmt.Sprintf("result%d", i)] = r
		if i == 0 {
			extra["result"] = r
		}
		if i < fn.Signature.Results().Len() {
			if nm := fn.Signature.Results().At(i).Name(); nm != "" && nm != "_" {
				extra[nm] = r
			}
		}
	}
	post := &evalCtx{env: map[ssa.Value]Val{}, st: ex.st, old: fr.oldState, extra: extra, pkg: ctx.pkg}
	// at exit, parameter names denote their entry values
	for i, e := range spec.Ensures {
		g, err := x.evalBool(fr, e.Expr, post)
		if err != nil {
			x.errf("%s: ensures %q: %v", res.Key, e.Src, err)
			continue
		}
		x.addObl("post", fmt.Sprintf("[%d]", i), ex.reach, g, "postcondition: "+e.Src, token.NoPos)
	}
	if len(spec.Ensures) > 0 {
		o := x.addObl("vacuity", "exit", ex.reach, "false", "some return is reachable (expected sat)", token.NoPos)
		o.Vacuity = true
	}
	// preserves: objects that existed at entry are unchanged in the named heaps
	for _, h := range x.preservedHeaps(spec, fn) {
		if g := x.preserveFact(fr.oldState, ex.st, h); g != "" {
			o := x.addObl("frame", "preserves:"+strings.Trim(h, "|"), ex.reach, g, "objects allocated before the call are unchanged in "+h, token.NoPos)
			if srt := x.q.heaps[h]; strings.HasPrefix(srt, "(Array Ref ") && x.fnWritesOnlyLocalS(fn, h, map[*ssa.Function]bool{}, true) {
				// every write to this heap goes through an object the function (or an uncontracted callee) allocates itself
				o.Result, o.Solver = "unsat", "static"
			}
		}
	}
	if spec.MapOrder {
		o := &Obligation{Name: x.oblName("static", "maporder"), Kind: "static", Func: res.Key, Q: x.q, Props: props, Desc: "no result depends on map iteration order: each map range only collects elements into a slice that is sorted before any other use (the sort criterion is assumed to be a total order on the collected elements)"}
		if why := mapOrderReasons(fn, map[*ssa.Function]bool{}); len(why) == 0 {
			o.Result, o.Solver = "unsat", "static"
		} else {
			o.Result, o.Solver, o.Output = "sat", "static", strings.Join(why, "; ")
		}
		x.obls = append(x.obls, o)
	}
	if spec.Deterministic {
		o := &Obligation{Name: x.oblName("static", "deterministic"), Kind: "static", Func: res.Key, Q: x.q, Props: props, Desc: "result depends only on the arguments: no map iteration, select, goroutine, clock/random/environment call or package-variable read (library calls trusted deterministic)"}
		if why := nondetReasons(e, fn, map[*ssa.Function]bool{}); len(why) == 0 {
			o.Result, o.Solver = "unsat", "static"
		} else {
			o.Result, o.Solver, o.Output = "sat", "static", strings.Join(why, "; ")
		}
		x.obls = append(x.obls, o)
	}
	// frame: declared modifies must cover the syntactic write set
	if spec.HasMod {
		declared := map[string]bool{}
		x.specModifies(spec, declared)
		ws := map[string]bool{}
		x.writeSetFn(fn, ws, map[*ssa.Function]bool{})
		var extraW []string
		for h := range ws {
			if !declared[h] && !strings.HasPrefix(h, "$") && !x.localOnlyHeap(fn, h) {
				extraW = append(extraW, h)
			}
		}
		sort.Strings(extraW)
		o := &Obligation{Name: x.oblName("frame", ""), Kind: "frame", Func: res.Key, Q: x.q, Props: props, Desc: "writes only what `modifies` declares"}
		if len(extraW) == 0 {
			o.Result, o.Solver = "unsat", "static"
		} else {
			o.Result, o.Solver = "sat", "static"
			o.Output = "writes outside the declared frame: " + strings.Join(extraW, ", ")
		}
		x.obls = append(x.obls, o)
	}
	res.Obls = x.obls
	res.Errors = append(res.Errors, x.errs...)
	for n := range x.q.notes {
		res.Notes = append(res.Notes, n)
	}
	sort.Strings(res.Notes)
	for t := range x.trusted {
		res.Trusted = append(res.Trusted, t)
	}
	sort.Strings(res.Trusted)
	return res
}

// localOnlyHeap: writes to element/box heaps that can only hit objects allocated inside the function are not frame violations.
// Conservative syntactic approximation: every store to that heap in fn goes through an address rooted at a local Alloc / MakeSlice / new array.
func (x *FnExec) localOnlyHeap(fn *ssa.Function, heap string) bool {
	ok := true
	var visit func(f *ssa.Function, seen map[*ssa.Function]bool)
	visit = func(f *ssa.Function, seen map[*ssa.Function]bool) {
		if seen[f] || f.Blocks == nil {
			return
		}
		seen[f] = true
		for _, b := range f.Blocks {
			for _, in := range b.Instrs {
				switch in := in.(type) {
				case *ssa.Store:
					hs := map[string]bool{}
					x.addrHeapsOfPointerType(in.Addr.Type(), in.Addr, hs)
					if hs[heap] && !rootedAtLocal(in.Addr, 0) {
						ok = false
					}
				case *ssa.MapUpdate:
					if mt, isMap := in.Map.Type().Underlying().(*types.Map); isMap {
						d, v, l, _, _ := x.mapHeaps(mt)
						if (d == heap || v == heap || l == heap) && !rootedAtLocal(in.Map, 0) {
							ok = false
						}
					}
				case ssa.CallInstruction:
					c := in.Common()
					hs := map[string]bool{}
					x.writeSetCall(f, in, hs, map[*ssa.Function]bool{})
					if hs[heap] {
						if bi, isB := c.Value.(*ssa.Builtin); isB && bi.Name() == "append" {
							// append writes in place only into the first argument's backing array
							if !rootedAtLocal(c.Args[0], 0) {
								ok = false
							}
						} else {
							ok = false
						}
					}
				case *ssa.MakeClosure:
					visit(in.Fn.(*ssa.Function), seen)
				}
			}
		}
	}
	visit(fn, map[*ssa.Function]bool{})
	return ok
}

func rootedAtLocal(v ssa.Value, depth int) bool {
	if depth > 8 {
		return false
	}
	switch a := v.(type) {
	case *ssa.Alloc, *ssa.MakeSlice, *ssa.MakeMap:
		return true
	case *ssa.FieldAddr:
		return rootedAtLocal(a.X, depth+1)
	case *ssa.IndexAddr:
		return rootedAtLocal(a.X, depth+1)
	case *ssa.Slice:
		return rootedAtLocal(a.X, depth+1)
	case *ssa.Phi:
		for _, e := range a.Edges {
			if e == v {
				continue
			}
			if !rootedAtLocalNoCycle(e, a, depth+1) {
				return false
			}
		}
		return true
	case *ssa.Call:
		if bi, ok := a.Call.Value.(*ssa.Builtin); ok && bi.Name() == "append" {
			// result of append on a local slice (or grown: fresh) is local if the base is local
			return rootedAtLocal(a.Call.Args[0], depth+1)
		}
	case *ssa.Const:
		return a.Value == nil // nil slice / map: append to nil allocates
	}
	return false
}

func rootedAtLocalNoCycle(v ssa.Value, phi *ssa.Phi, depth int) bool {
	if c, ok := v.(*ssa.Call); ok {
		if bi, ok := c.Call.Value.(*ssa.Builtin); ok && bi.Name() == "append" && c.Call.Args[0] == phi {
			return true
		}
	}
	if v == phi {
		return true
	}
	return rootedAtLocal(v, depth)
}

func (x *FnExec) addInput(name string, v Val) {
	if len(v.Tuple) > 0 || v.S == "" {
		return
	}
	x.inputs = append(x.inputs, v.S)
	x.inputNames = append(x.inputNames, name)
}

func sortedGhostNames(db *SpecDB) []string {
	var ns []string
	for n := range db.Ghosts {
		ns = append(ns, n)
	}
	sort.Strings(ns)
	return ns
}

// preservedHeaps resolves the `preserves` clause to heap names.
func (x *FnExec) preservedHeaps(spec *FuncSpec, fn *ssa.Function) []string {
	if spec == nil || len(spec.Preserves) == 0 {
		return nil
	}
	set := map[string]bool{}
	for _, p := range spec.Preserves {
		if p == "all" {
			if spec.HasMod {
				x.specModifies(spec, set)
			} else if fn != nil {
				x.eng.ensureBuilt(fn)
				x.writeSetFn(fn, set, map[*ssa.Function]bool{})
			}
			continue
		}
		names, err := x.eng.resolveHeapSpec(x, spec.Pkg, p)
		if err != nil {
			x.errf("preserves %q in %s: %v", p, spec.Key, err)
			continue
		}
		for _, n := range names {
			set[n] = true
		}
	}
	var out []string
	for h := range set {
		if _, ok := x.q.heaps[h]; ok && !strings.HasPrefix(h, "$") {
			out = append(out, h)
		}
	}
	sort.Strings(out)
	return out
}

// preserveFact: forall r. alloc_pre[r] => H_post[r] == H_pre[r]  (global cells: H_post == H_pre)
func (x *FnExec) preserveFact(pre, post *State, h string) string {
	srt := x.q.heaps[h]
	a, b := x.heapGet(pre, h, srt), x.heapGet(post, h, srt)
	if a == b {
		return ""
	}
	if !strings.HasPrefix(srt, "(Array Ref ") {
		return eq(a, b)
	}
	al := x.heapGet(pre, "$alloc", "(Array Ref Bool)")
	x.q.fresh["qv_fr"]++
	r := fmt.Sprintf("|r?fr%d|", x.q.fresh["qv_fr"])
	return fmt.Sprintf("(forall ((%s Ref)) (! (=> (select %s %s) (= (select %s %s) (select %s %s))) :pattern ((select %s %s))))", r, al, r, b, r, a, r, b, r)
}

// nondetReasons: syntactic sources of nondeterminism / hidden state in fn and the repository functions it calls.
func nondetReasons(e *Engine, fn *ssa.Function, seen map[*ssa.Function]bool) []string {
	if seen[fn] || fn.Blocks == nil {
		return nil
	}
	seen[fn] = true
	var out []string
	for _, b := range fn.Blocks {
		for _, in := range b.Instrs {
			switch in := in.(type) {
			case *ssa.Range:
				if _, ok := in.X.Type().Underlying().(*types.Map); ok {
					out = append(out, "map iteration in "+funcKey(fn))
				}
			case *ssa.Select:
				out = append(out, "select in "+funcKey(fn))
			case *ssa.Go:
				out = append(out, "go statement in "+funcKey(fn))
			case *ssa.UnOp:
				if g, ok := in.X.(*ssa.Global); ok && in.Op == token.MUL {
					out = append(out, "reads package variable "+g.Name()+" in "+funcKey(fn))
				}
				if in.Op == token.ARROW {
					out = append(out, "channel receive in "+funcKey(fn))
				}
			case ssa.CallInstruction:
				c := in.Common()
				if callee, ok := c.Value.(*ssa.Function); ok {
					name := callee.String()
					for _, bad := range []string{"time.Now", "time.Since", "math/rand", "crypto/rand", "os.Getenv", "os.Hostname", "github.com/google/uuid"} {
						if strings.Contains(name, bad) {
							out = append(out, "calls "+name+" in "+funcKey(fn))
						}
					}
					if e.isRepoFunc(callee) {
						e.ensureBuilt(callee)
						out = append(out, nondetReasons(e, callee, seen)...)
					}
				}
				if mc, ok := c.Value.(*ssa.MakeClosure); ok {
					out = append(out, nondetReasons(e, mc.Fn.(*ssa.Function), seen)...)
				}
			case *ssa.MakeClosure:
				out = append(out, nondetReasons(e, in.Fn.(*ssa.Function), seen)...)
			}
		}
	}
	return out
}

var sortFuncs = map[string]bool{"sort.Strings": true, "sort.Ints": true, "sort.Slice": true, "sort.SliceStable": true, "sort.Sort": true, "sort.Stable": true,
	"slices.Sort": true, "slices.SortFunc": true, "slices.SortStableFunc": true}

// mapOrderReasons: map iterations in fn (and its closures) whose order can influence the result.
func mapOrderReasons(fn *ssa.Function, seen map[*ssa.Function]bool) []string {
	if seen[fn] || fn.Blocks == nil {
		return nil
	}
	seen[fn] = true
	var out []string
	loops, _ := analyzeLoops(fn, nil)
	for _, b := range fn.Blocks {
		for _, in := range b.Instrs {
			if mc, ok := in.(*ssa.MakeClosure); ok {
				out = append(out, mapOrderReasons(mc.Fn.(*ssa.Function), seen)...)
			}
			if ci, ok := in.(ssa.CallInstruction); ok {
				callee := ci.Common().StaticCallee()
				calleePath := ""
				if callee != nil {
					if callee.Pkg != nil {
						calleePath = callee.Pkg.Pkg.Path()
					} else if o := callee.Origin(); o != nil && o.Pkg != nil {
						calleePath = o.Pkg.Pkg.Path()
					}
				}
				if os.Getenv("TVC_DEBUG_MAPORDER") != "" {
					fmt.Fprintf(os.Stderr, "maporder: %s calls %v (static %v, path %q)\n", funcKey(fn), ci.Common().Value, callee != nil, calleePath)
				}
				if callee != nil && !strings.HasPrefix(calleePath, repoModule) {
					nm := callee.String()
					for { // drop every (innermost first) type-argument list
						j := strings.Index(nm, "]")
						if j < 0 {
							break
						}
						i := strings.LastIndex(nm[:j], "[")
						if i < 0 {
							break
						}
						nm = nm[:i] + nm[j+1:]
					}
					for _, leak := range []string{".UnsortedList", "maps.Keys", "maps.Values", "lo.Keys", "lo.Values", "lo.MapToSlice", "lo.Entries", "lo.ToPairs"} {
						if !strings.HasSuffix(nm, leak) {
							continue
						}
						sorted := false
						if v, isV := in.(ssa.Value); isV && v.Referrers() != nil {
							work := []ssa.Value{v}
							for d := 0; d < 4 && len(work) > 0 && !sorted; d++ {
								var next []ssa.Value
								for _, w := range work {
									if w.Referrers() == nil {
										continue
									}
									for _, ref := range *w.Referrers() {
										switch r := ref.(type) {
										case ssa.CallInstruction:
											if c2 := r.Common().StaticCallee(); c2 != nil && (strings.HasPrefix(c2.String(), "sort.") || strings.HasPrefix(c2.String(), "slices.Sort")) {
												sorted = true
											}
										case *ssa.MakeInterface:
											next = append(next, r)
										case *ssa.ChangeType:
											next = append(next, r)
										case *ssa.Convert:
											next = append(next, r)
										}
									}
								}
								work = next
							}
						}
						if !sorted {
							pos := fn.Prog.Fset.Position(in.Pos())
							out = append(out, fmt.Sprintf("call to %s at %s line %d yields its elements in map iteration order and the result is not sorted", nm, funcKey(fn), pos.Line))
						}
					}
				}
			}
			nx, ok := in.(*ssa.Next)
			if !ok {
				continue
			}
			r, ok := nx.Iter.(*ssa.Range)
			if !ok {
				continue
			}
			if _, isMap := r.X.Type().Underlying().(*types.Map); !isMap {
				continue
			}
			li := loops[b]
			pos := fn.Prog.Fset.Position(r.Pos())
			where := fmt.Sprintf("map iteration at %s line %d", funcKey(fn), pos.Line)
			if li == nil {
				out = append(out, where+": not a recognisable loop")
				continue
			}
			if why := collectThenSort(fn, li); why != "" {
				out = append(out, where+": "+why)
			}
		}
	}
	return out
}

// collectThenSort: "" if the loop only appends to slices that are sorted right after the loop.
func collectThenSort(fn *ssa.Function, li *loopInfo) string {
	rootedInLoop := func(v ssa.Value) bool {
		for d := 0; d < 8; d++ {
			switch a := v.(type) {
			case *ssa.Alloc:
				return li.blocks[a.Block()]
			case *ssa.FieldAddr:
				v = a.X
			case *ssa.IndexAddr:
				v = a.X
			default:
				return false
			}
		}
		return false
	}
	// slice variables held in a cell (address-taken locals): `*cell = append(*cell, ...)`
	cells := map[*ssa.Alloc]bool{}
	for b := range li.blocks {
		for _, in := range b.Instrs {
			switch in := in.(type) {
			case *ssa.Store:
				if !rootedInLoop(in.Addr) {
					if cell, ok := in.Addr.(*ssa.Alloc); ok {
						if _, isSl := derefType(cell.Type()).Underlying().(*types.Slice); isSl {
							if call, ok := in.Val.(*ssa.Call); ok {
								if bi, ok := call.Call.Value.(*ssa.Builtin); ok && bi.Name() == "append" {
									if ld, ok := call.Call.Args[0].(*ssa.UnOp); ok && ld.X == cell {
										cells[cell] = true
										continue
									}
								}
							}
						}
					}
					return "the loop body stores to memory that outlives an iteration"
				}
			case *ssa.MapUpdate, *ssa.Send, *ssa.Go, *ssa.Defer, *ssa.Return:
				return "the loop body has effects other than collecting elements"
			case ssa.CallInstruction:
				if bi, ok := in.Common().Value.(*ssa.Builtin); !ok || (bi.Name() != "append" && bi.Name() != "len" && bi.Name() != "cap") {
					return "the loop body calls " + in.Common().Value.Name()
				}
			}
		}
	}
	// control flow inside the loop may depend on the current element only: a branch that looks at what was collected so
	// far (or an early exit) makes the collected set depend on the iteration order
	exiting := 0
	for b := range li.blocks {
		for _, sb := range b.Succs {
			if !li.blocks[sb] {
				exiting++
			}
		}
		if b == li.header || len(b.Instrs) == 0 {
			continue
		}
		iff, ok := b.Instrs[len(b.Instrs)-1].(*ssa.If)
		if !ok {
			continue
		}
		seenV := map[ssa.Value]bool{}
		var carried func(v ssa.Value, d int) bool
		carried = func(v ssa.Value, d int) bool {
			if v == nil || seenV[v] || d > 12 {
				return false
			}
			seenV[v] = true
			switch a := v.(type) {
			case *ssa.Phi:
				if a.Block() == li.header {
					return true
				}
			case *ssa.UnOp:
				if al, ok := a.X.(*ssa.Alloc); ok && !li.blocks[al.Block()] {
					return true // reads a variable that lives across iterations
				}
			}
			if in, ok := v.(ssa.Instruction); ok {
				for _, op := range in.Operands(nil) {
					if op != nil && *op != nil && carried(*op, d+1) {
						return true
					}
				}
			}
			return false
		}
		if carried(iff.Cond, 0) {
			return "a branch inside the loop depends on values carried across iterations (what was collected so far)"
		}
	}
	if exiting > 1 {
		return "the loop can be left early (several exits)"
	}
	// collected slices: header phis fed by append on the back edge
	var collected []*ssa.Phi
	for _, in := range li.header.Instrs {
		p, ok := in.(*ssa.Phi)
		if !ok {
			break
		}
		if _, isSl := p.Type().Underlying().(*types.Slice); !isSl {
			if p.Comment == "" || isInteger(p.Type()) {
				continue
			}
			return "a loop-carried value other than a collected slice (" + p.Comment + ")"
		}
		collected = append(collected, p)
	}
	// cell-held collections: the first call after the loop (in its exit block) must be a sort of that slice
	for cell := range cells {
		var exit *ssa.BasicBlock
		for b := range li.blocks {
			for _, sb := range b.Succs {
				if !li.blocks[sb] {
					if exit != nil && exit != sb {
						return "the loop has several exits"
					}
					exit = sb
				}
			}
		}
		if exit == nil {
			return "the loop has no exit"
		}
		sorted := false
		for _, in := range exit.Instrs {
			call, ok := in.(ssa.CallInstruction)
			if !ok {
				continue
			}
			c := call.Common()
			if len(c.Args) > 0 {
				arg := c.Args[0]
				if mi, ok := arg.(*ssa.MakeInterface); ok {
					arg = mi.X
				}
				if ld, ok := arg.(*ssa.UnOp); ok && ld.X == cell && isSortOf(in, c.Args[0]) {
					sorted = true
				}
			}
			break // only the first call counts
		}
		if !sorted {
			return "the collected slice " + cell.Comment + " is not sorted right after the loop"
		}
	}
	for _, p := range collected {
		var sortCall ssa.Instruction
		var others []ssa.Instruction
		for _, u := range *p.Referrers() {
			if li.blocks[u.Block()] {
				continue
			}
			if isSortOf(u, p) {
				if sortCall == nil {
					sortCall = u
				}
				continue
			}
			if mi, ok := u.(*ssa.MakeInterface); ok {
				// sort.Slice(x any, ...) / sort.Sort(x Interface): look through the interface conversion
				isS := false
				for _, uu := range *mi.Referrers() {
					if isSortOf(uu, mi) {
						isS = true
						if sortCall == nil {
							sortCall = uu
						}
					}
				}
				if isS {
					continue
				}
			}
			if _, ok := u.(*ssa.DebugRef); ok {
				continue
			}
			others = append(others, u)
		}
		if sortCall == nil {
			return "the collected slice " + p.Comment + " is used without being sorted"
		}
		for _, u := range others {
			if u.Block() == sortCall.Block() {
				bi, si := -1, -1
				for i, in := range u.Block().Instrs {
					if in == u {
						bi = i
					}
					if in == sortCall {
						si = i
					}
				}
				if bi < si {
					return "the collected slice " + p.Comment + " is used before it is sorted"
				}
				continue
			}
			if !sortCall.Block().Dominates(u.Block()) {
				return "the collected slice " + p.Comment + " can be used without passing the sort"
			}
		}
	}
	return ""
}

func isSortOf(u ssa.Instruction, v ssa.Value) bool {
	call, ok := u.(ssa.CallInstruction)
	if !ok {
		return false
	}
	c := call.Common()
	f, ok := c.Value.(*ssa.Function)
	if !ok || len(c.Args) == 0 || c.Args[0] != v {
		return false
	}
	name := f.String()
	if i := strings.Index(name, "["); i >= 0 {
		name = name[:i]
	}
	return sortFuncs[name]
}
