package main

import (
	"encoding/json"
	"flag"
	"fmt"
	"go/types"
	"os"
	"path/filepath"
	"sort"
	"strconv"
	"strings"
	"time"

	"golang.org/x/tools/go/ssa"
)

type PropConfig struct {
	ID         string   `json:"id"`
	Packages   []string `json:"packages"`
	Unproved   []string `json:"unproved_clauses"`
	Assume     []string `json:"assumptions"`
	DesignRef  string   `json:"design_ref"`
	ExtraFuncs []string `json:"extra_functions"` // "pkgpath:Key" verified with an empty contract (guard sites are found automatically)
	Bounded    []BoundedCheck `json:"bounded"`
	Replay     []BoundedCheck `json:"replay"` // replay harnesses for functions that are fully proved (used only to find a concrete failing input after an obligation fails)
}

// BoundedCheck: a bounded stand-in for one function the deductive proof does not (fully) reach: the real function is
// executed over a stated finite domain against an independent oracle. Labelled bounded, never counted as proved.
type BoundedCheck struct {
	Function string `json:"function"`
	Pkg      string `json:"pkg"`     // repo-relative package dir
	Harness  string `json:"harness"` // file under /verif/harness
	Test     string `json:"test"`
	Bound    string `json:"bound"`
	Reason   string `json:"reason"`
}

type KnownFinding struct {
	Property   string `json:"property"`
	Obligation string `json:"obligation"`
	What       string `json:"what_fails"`
	Input      string `json:"input_or_site"`
	Status     string `json:"status"` // open | fixed
	Commit     string `json:"commit,omitempty"`
	// inputs of the function's replay harness that exhibit this finding: when the contract no longer resolves against
	// changed code and the harness is the only judge left, exactly these inputs are reported as the known finding
	ReplayInputs []string `json:"replay_inputs,omitempty"`
}

func verifDir() string {
	if d := os.Getenv("TVC_VERIF"); d != "" {
		return d
	}
	return "/verif"
}

func readLines(path string) map[string]bool {
	out := map[string]bool{}
	data, err := os.ReadFile(path)
	if err != nil {
		return out
	}
	for _, l := range strings.Split(string(data), "\n") {
		l = strings.TrimSpace(l)
		if l != "" && !strings.HasPrefix(l, "#") {
			out[l] = true
		}
	}
	return out
}

func cmdMain(args []string) int {
	switch args[0] {
	case "check":
		return cmdCheck(args[1:])
	}
	fmt.Fprintln(os.Stderr, "unknown command", args[0])
	return 2
}

func cmdCheck(args []string) int {
	fs := flag.NewFlagSet("check", flag.ExitOnError)
	prop := fs.String("prop", "", "property id")
	tier := fs.String("tier", "quick", "quick|thorough")
	update := fs.Bool("update-expected", false, "rewrite expected/<id>.obligations from this run")
	dump := fs.String("dump", "", "directory to dump SMT queries of failing obligations")
	only := fs.String("func", "", "only verify functions whose key contains this substring")
	verbose := fs.Bool("v", false, "print every obligation")
	noEvidence := fs.Bool("no-evidence", false, "do not write evidence file")
	fs.Parse(args)
	start := time.Now()
	id := *prop
	vd := verifDir()
	var cfg PropConfig
	data, err := os.ReadFile(filepath.Join(vd, "props", id+".json"))
	if err != nil {
		fmt.Fprintln(os.Stderr, "UNDECIDED: no property config:", err)
		return 2
	}
	if err := json.Unmarshal(data, &cfg); err != nil {
		fmt.Fprintln(os.Stderr, "UNDECIDED: bad property config:", err)
		return 2
	}
	seed := 0
	if s := os.Getenv("VERIF_SEED"); s != "" {
		seed, _ = strconv.Atoi(s)
	}
	if t := os.Getenv("VERIF_TIER"); t != "" && *tier == "" {
		*tier = t
	}

	prog, err := loadProgram(cfg.Packages)
	if err != nil {
		fmt.Fprintln(os.Stderr, "UNDECIDED: cannot load /repo packages (does the tree compile with -tags default_build,verif?):", err)
		return 2
	}
	loadS := time.Since(start).Seconds()
	specs := newSpecDB()
	var repoPkgs []string
	for path := range prog.All {
		if strings.HasPrefix(path, repoModule) {
			repoPkgs = append(repoPkgs, path)
		}
	}
	sort.Strings(repoPkgs)
	for _, path := range repoPkgs {
		specs.loadSpecsForPackage(prog.RepoDir, path)
	}
	libSpecs, _ := filepath.Glob(filepath.Join(vd, "lib", "*.spec"))
	sort.Strings(libSpecs)
	for _, f := range libSpecs {
		specs.loadSpecFile(f)
	}
	if len(specs.Errors) > 0 {
		for _, e := range specs.Errors {
			fmt.Fprintln(os.Stderr, "contract syntax error:", e)
		}
		fmt.Fprintln(os.Stderr, "UNDECIDED: contract files do not parse")
		return 2
	}
	eng := newEngine(prog, specs)
	eng.filterProp = id
	eng.thorough = *tier == "thorough"

	// ---- select functions
	type job struct {
		fn   *ssa.Function
		spec *FuncSpec
	}
	var jobs []job
	var undecided []string
	done := map[*ssa.Function]bool{}
	for _, sp := range specs.funcSpecsSorted() {
		if !hasProp(sp.Props, id) || sp.Trusted || sp.Inline {
			continue // inline helpers are verified in the context of their callers
		}
		if _, isTarget := prog.SSAPkgs[sp.Pkg]; !isTarget {
			continue
		}
		fn := prog.lookupFunc(sp.Pkg, sp.Key)
		if fn == nil {
			undecided = append(undecided, fmt.Sprintf("contract target %s:%s does not exist in the current tree", sp.Pkg, sp.Key))
			continue
		}
		if *only != "" && !strings.Contains(funcKey(fn), *only) {
			continue
		}
		jobs = append(jobs, job{fn, sp})
		done[fn] = true
	}
	// guard sites in functions without a contract for this property
	var guards []*Guard
	for _, g := range specs.Guards {
		if hasProp(g.Props, id) {
			guards = append(guards, g)
		}
	}
	if len(guards) > 0 || len(cfg.ExtraFuncs) > 0 {
		for _, fn := range prog.allFunctions() {
			if done[fn] {
				continue
			}
			if *only != "" && !strings.Contains(funcKey(fn), *only) {
				continue
			}
			want := false
			for _, ef := range cfg.ExtraFuncs {
				if strings.HasSuffix(ef, ":"+strings.TrimPrefix(funcKey(fn), strings.TrimPrefix(fn.Pkg.Pkg.Path(), repoModule+"/")+".")) && strings.HasPrefix(ef, fn.Pkg.Pkg.Path()+":") {
					want = true
				}
			}
			if !want && hasGuardSite(eng, fn, guards) {
				want = true
			}
			if want {
				jobs = append(jobs, job{fn, eng.specFor(fn)})
				done[fn] = true
			}
		}
	}

	// ---- generate VCs
	var results []*FuncResult
	var obls []*Obligation
	trusted := map[string]bool{}
	notes := map[string]bool{}
	for _, j := range jobs {
		sp := j.spec
		if sp != nil && !hasProp(sp.Props, id) {
			// function has a contract for another property; here it is only visited for guard sites: keep its loop annotations
		}
		r := eng.verifyFunction(j.fn, sp, []string{id})
		results = append(results, r)
		if len(r.Errors) > 0 {
			for _, e := range r.Errors {
				undecided = append(undecided, e)
			}
			continue
		}
		for _, o := range r.Obls {
			if j.spec == nil || !hasProp(j.spec.Props, id) {
				// only guard obligations count for functions not under contract for this property
				if o.Kind != "guard" {
					continue
				}
				if !hasProp(o.Props, id) {
					continue
				}
			} else if o.Kind == "guard" && !hasProp(o.Props, id) {
				continue
			}
			obls = append(obls, o)
		}
		for _, t := range r.Trusted {
			trusted[t] = true
		}
		for _, n := range r.Notes {
			notes[n] = true
		}
	}
	// lemmas
	for _, lm := range specs.Lemmas {
		if !hasProp(lm.Props, id) {
			continue
		}
		x := &FnExec{eng: eng, q: newQ(lm.Mode), mode: lm.Mode, ordinals: map[string]int{}, trusted: map[string]bool{}}
		ctx := &evalCtx{env: map[ssa.Value]Val{}, st: &State{heap: map[string]string{}}, noLocals: true, pkg: eng.pkgByPath(lm.Pkg), extra: map[string]Val{}}
		ctx.old = ctx.st
		g, err := x.evalBool(nil, lm.Expr, ctx)
		if err != nil {
			undecided = append(undecided, fmt.Sprintf("lemma %s: %v", lm.Name, err))
			continue
		}
		obls = append(obls, &Obligation{Name: "lemma:" + lm.Name, Kind: "lemma", Func: "lemma", Prefix: len(x.q.body), Reach: "true", Goal: g, Desc: lm.Src, Q: x.q, Props: lm.Props})
	}
	if *only == "" {
		for _, g := range guards {
			if g.Hits == 0 && !g.Optional {
				undecided = append(undecided, fmt.Sprintf("guard matches no site in the current tree (target renamed or site removed?): %s", g.Src))
			}
		}
	}
	genS := time.Since(start).Seconds() - loadS

	// ---- discharge
	opts := solveOpts{timeoutS: 10, retryS: 60, workers: 12}
	if *tier == "thorough" {
		opts = solveOpts{timeoutS: 30, retryS: 120, both: true, workers: 8}
	}
	if v := os.Getenv("TVC_TIMEOUT_S"); v != "" {
		opts.timeoutS, _ = strconv.Atoi(v)
	}
	if v := os.Getenv("TVC_RETRY_S"); v != "" {
		opts.retryS, _ = strconv.Atoi(v)
	}
	if *dump != "" {
		os.MkdirAll(*dump, 0o755)
	}
	solverMs := dischargeAll(obls, opts)

	// ---- classify
	expected := readLines(filepath.Join(vd, "expected", id+".obligations"))
	unprovedOK := readLines(filepath.Join(vd, "expected", id+".unproved"))
	var known []KnownFinding
	if data, err := os.ReadFile(filepath.Join(vd, "known_findings.json")); err == nil {
		json.Unmarshal(data, &known)
	}
	knownOpen := map[string]KnownFinding{}
	for _, k := range known {
		if k.Property == id && k.Status == "open" {
			knownOpen[k.Obligation] = k
		}
	}
	generated := map[string]*Obligation{}
	for _, o := range obls {
		generated[o.Name] = o
	}
	var failing, passing, vacuityBad, unprovedSeen, knownSeen []*Obligation
	nVac, nVacOK := 0, 0
	var unreachableReturns []string
	for _, o := range obls {
		if o.Vacuity {
			nVac++
			switch o.Result {
			case "sat":
				nVacOK++
			case "unsat":
				if strings.Contains(o.Name, "#vacuity:return#") {
					// an unreachable return statement (e.g. an error path the library models rule out) is reported, not fatal:
					// only a function with NO reachable return (vacuity:exit) or a contradictory precondition voids its proofs
					unreachableReturns = append(unreachableReturns, o.Name+" ("+o.Pos+")")
				} else {
					vacuityBad = append(vacuityBad, o)
				}
			}
			continue
		}
		if o.Result == "unsat" {
			passing = append(passing, o)
			continue
		}
		if _, ok := knownOpen[o.Name]; ok {
			knownSeen = append(knownSeen, o)
			continue
		}
		if unprovedOK[o.Name] && !expected[o.Name] {
			unprovedSeen = append(unprovedSeen, o)
			continue
		}
		failing = append(failing, o)
	}
	var missing []string
	for name := range expected {
		if _, ok := generated[name]; !ok {
			kind := oblKindOf(name)
			if kind == "post" || kind == "frame" || kind == "lemma" {
				missing = append(missing, name)
			}
		}
	}
	sort.Strings(missing)

	if *verbose {
		for _, r := range results {
			for _, t := range r.Trusted {
				fmt.Printf("  trusted[%s]: %s\n", r.Key, t)
			}
		}
		for _, o := range obls {
			fmt.Printf("  %-8s %-10s %6dms %s  [%s]\n", o.Result, o.Solver, o.Ms, o.Name, o.Pos)
		}
	}
	if *dump != "" {
		for i, o := range obls {
			if (o.Result != "unsat" || os.Getenv("TVC_DUMP_ALL") != "") && o.Q != nil && o.Solver != "static" {
				os.WriteFile(filepath.Join(*dump, fmt.Sprintf("%03d_%s.smt2", i, mangle(o.Name))), []byte(o.Q.query(o.Prefix, nil, and(o.Reach, not(o.Goal)), o.Values)), 0o644)
			}
		}
	}

	if *update {
		// never let an update hide a regression: an obligation that was proved before and does not discharge now is reported,
		// and the lists are left as they are
		var regress []string
		for _, o := range append(append([]*Obligation{}, failing...), unprovedSeen...) {
			if expected[o.Name] {
				regress = append(regress, o.Name+" ["+o.Result+"]")
			}
		}
		if len(regress) > 0 && os.Getenv("TVC_ACCEPT_REGRESSION") == "" {
			for _, r := range regress {
				fmt.Println("REGRESSION: previously proved obligation does not discharge:", r)
			}
			fmt.Println("expected list NOT updated")
			os.Exit(3)
		}
		var names []string
		for _, o := range passing {
			names = append(names, o.Name)
		}
		sort.Strings(names)
		os.MkdirAll(filepath.Join(vd, "expected"), 0o755)
		os.WriteFile(filepath.Join(vd, "expected", id+".obligations"), []byte(strings.Join(names, "\n")+"\n"), 0o644)
		var un []string
		for _, o := range append(append([]*Obligation{}, failing...), unprovedSeen...) {
			un = append(un, o.Name)
		}
		// entries of the existing list that this run did not generate at all (other tier: slow cases) are kept
		for name := range unprovedOK {
			if _, gen := generated[name]; !gen {
				un = append(un, name)
			}
		}
		sort.Strings(un)
		if len(un) > 0 {
			os.WriteFile(filepath.Join(vd, "expected", id+".unproved"), []byte("# obligations generated on the unchanged tree that do not discharge; NOT counted as proved\n"+strings.Join(un, "\n")+"\n"), 0o644)
		} else {
			os.Remove(filepath.Join(vd, "expected", id+".unproved"))
		}
		fmt.Printf("expected list updated: %d passing, %d unproved\n", len(names), len(un))
		for _, o := range failing {
			fmt.Printf("  UNPROVED %s (%s) %s :: %s\n", o.Name, o.Result, o.Pos, o.Desc)
		}
	}

	// ---- bounded stand-ins (never counted as proved)
	var boundedEv []map[string]interface{}
	type bfail struct {
		b     BoundedCheck
		input string
		line  string
	}
	var bfails []bfail
	for _, b := range cfg.Bounded {
		ok, log := runHarness(prog.RepoDir, b.Pkg, b.Harness, b.Test, map[string]string{"TVC_TIER": *tier, "VERIF_SEED": fmt.Sprint(seed)})
		evals := 0
		var fails []string
		for _, l := range strings.Split(log, "\n") {
			if i := strings.Index(l, "TVC-EVALS "); i >= 0 {
				fmt.Sscanf(l[i+10:], "%d", &evals)
			}
			if i := strings.Index(l, "TVC-FAIL "); i >= 0 {
				fails = append(fails, strings.TrimSpace(l[i+9:]))
			}
		}
		if !ok && len(fails) == 0 {
			fails = append(fails, "input=<harness did not run> "+truncate(log, 400))
		}
		nKnown := 0
		for _, f := range fails {
			inp := f
			if j := strings.Index(f, " got="); j >= 0 {
				inp = f[:j]
			}
			name := b.Function + "#bounded:" + inp
			if k, isKnown := knownOpen[name]; isKnown {
				fmt.Printf("KNOWN-FINDING: property=%s %s (%s)\n", id, k.What, name)
				nKnown++
				continue
			}
			bfails = append(bfails, bfail{b, inp, f})
		}
		boundedEv = append(boundedEv, map[string]interface{}{"function": b.Function, "bound": b.Bound, "reason": b.Reason, "harness": b.Harness, "evaluations": evals, "failing_inputs": len(fails), "known_findings": nKnown, "counted_as_proved": false})
	}

	// ---- report
	exit := 0
	violations := 0
	if !*update {
		for i, bf := range bfails {
			if i >= 5 {
				break
			}
			violations++
			os.MkdirAll(filepath.Join(replaysBase(vd), id), 0o755)
			path := filepath.Join(replaysBase(vd), id, mangle(bf.b.Function+"_bounded_"+fmt.Sprint(i))+".json")
			rep := map[string]interface{}{"property": id, "obligation": bf.b.Function + "#bounded:" + bf.input, "kind": "bounded", "function": bf.b.Function,
				"failing_input": bf.input, "observed": bf.line, "replay_cmd": fmt.Sprintf("go test -overlay <ov.json mapping %s/zz_tvc_harness_test.go to /verif/harness/%s> -tags default_build -vet=off -run %s ./%s/", bf.b.Pkg, bf.b.Harness, bf.b.Test, bf.b.Pkg), "replay_confirmed": true}
			bts, _ := json.MarshalIndent(rep, "", " ")
			os.WriteFile(path, bts, 0o644)
			fmt.Printf("VIOLATION property=%s replay=%s\n  bounded stand-in for %s failed on the real code: %s\n", id, path, bf.b.Function, bf.line)
			exit = 1
		}
	}
	replayDir := filepath.Join(replaysBase(vd), id)
	for _, o := range knownSeen {
		k := knownOpen[o.Name]
		fmt.Printf("KNOWN-FINDING: property=%s %s (%s)\n", id, k.What, o.Name)
	}
	if !*update {
		for _, o := range failing {
			violations++
			os.MkdirAll(replayDir, 0o755)
			path := filepath.Join(replayDir, mangle(o.Name)+".json")
			rep := map[string]interface{}{"property": id, "obligation": o.Name, "kind": o.Kind, "function": o.Func, "clause": o.Desc, "position": o.Pos,
				"solver_result": o.Result, "solver": o.Solver, "solver_output": truncate(o.Output, 20000), "previously_proved": expected[o.Name]}
			confirmed := false
			if o.Result == "sat" {
				rep["model"] = parseModel(o)
			}
			// replay against the real code: the function's harness (if any) searches its domain for a failing input
			for _, b := range append(append([]BoundedCheck{}, cfg.Bounded...), cfg.Replay...) {
				if b.Function != o.Func {
					continue
				}
				mj, _ := json.Marshal(rep["model"])
				_, log := runHarness(prog.RepoDir, b.Pkg, b.Harness, b.Test, map[string]string{"TVC_TIER": *tier, "TVC_MODEL": string(mj)})
				var fails []string
				for _, l := range strings.Split(log, "\n") {
					if i := strings.Index(l, "TVC-FAIL "); i >= 0 {
						fails = append(fails, strings.TrimSpace(l[i+9:]))
					}
				}
				rep["replay_harness"] = b.Harness
				if len(fails) > 0 {
					confirmed = true
					if len(fails) > 5 {
						fails = fails[:5]
					}
					rep["failing_inputs_on_real_code"] = fails
				} else {
					rep["replay_log"] = truncate(log, 2000)
				}
			}
			rep["replay_confirmed"] = confirmed
			b, _ := json.MarshalIndent(rep, "", " ")
			os.WriteFile(path, b, 0o644)
			suffix := ""
			if !confirmed {
				suffix = " no-failing-input-found"
			}
			fmt.Printf("VIOLATION property=%s replay=%s%s\n", id, path, suffix)
			fmt.Printf("  failed obligation: %s [%s] %s\n  clause: %s\n", o.Name, o.Result, o.Pos, o.Desc)
			exit = 1
		}
	}
	// A contract that no longer resolves against the current code cannot be decided deductively; if the function has a
	// replay harness, a concrete failing input on the real code is still a sound violation report.
	if !*update && len(undecided) > 0 && exit == 0 {
		ran := map[string]bool{}
		for _, r := range results {
			if len(r.Errors) == 0 {
				continue
			}
			for _, b := range append(append([]BoundedCheck{}, cfg.Bounded...), cfg.Replay...) {
				if b.Function != r.Key || ran[b.Harness] {
					continue
				}
				ran[b.Harness] = true
				_, log := runHarness(prog.RepoDir, b.Pkg, b.Harness, b.Test, map[string]string{"TVC_TIER": *tier})
				var fails []string
				for _, l := range strings.Split(log, "\n") {
					if i := strings.Index(l, "TVC-FAIL "); i >= 0 {
						fails = append(fails, strings.TrimSpace(l[i+9:]))
					}
				}
				var fresh []string
				knownHit := map[string]KnownFinding{}
			nextFail:
				for _, f := range fails {
					inp := f
					if j := strings.Index(f, " got="); j >= 0 {
						inp = f[:j]
					}
					for _, k := range knownOpen {
						if !strings.HasPrefix(k.Obligation, r.Key+"#") {
							continue
						}
						for _, ki := range k.ReplayInputs {
							if ki == inp {
								knownHit[k.Obligation] = k
								continue nextFail
							}
						}
					}
					fresh = append(fresh, f)
				}
				for name, k := range knownHit {
					fmt.Printf("KNOWN-FINDING: property=%s %s (%s, by replay input)\n", id, k.What, name)
				}
				fails = fresh
				if len(fails) > 0 {
					violations++
					os.MkdirAll(replayDir, 0o755)
					path := filepath.Join(replayDir, mangle(r.Key+"_harness")+".json")
					if len(fails) > 5 {
						fails = fails[:5]
					}
					rep := map[string]interface{}{"property": id, "obligation": r.Key + "#contract-unresolved", "function": r.Key, "reason": "the contract no longer resolves against the changed code (" + strings.Join(r.Errors, "; ") + "); the function's replay harness found failing inputs on the real code",
						"failing_inputs_on_real_code": fails, "replay_harness": b.Harness, "replay_confirmed": true}
					bts, _ := json.MarshalIndent(rep, "", " ")
					os.WriteFile(path, bts, 0o644)
					fmt.Printf("VIOLATION property=%s replay=%s\n  %s: contract unresolved on the changed code; replay harness fails on the real code: %s\n", id, path, r.Key, fails[0])
					exit = 1
				}
			}
		}
	}
	if len(undecided) > 0 || len(missing) > 0 || len(vacuityBad) > 0 {
		for _, u := range undecided {
			fmt.Println("UNDECIDED:", u)
		}
		for _, m := range missing {
			fmt.Println("UNDECIDED: expected obligation no longer generated:", m)
		}
		for _, o := range vacuityBad {
			fmt.Println("UNDECIDED: vacuity check failed (assumptions contradictory or no return reachable):", o.Name)
		}
		if exit == 0 {
			exit = 2
		}
	}
	if len(obls) == 0 && exit == 0 {
		fmt.Println("UNDECIDED: no obligations generated")
		exit = 2
	}

	// ---- evidence
	wall := time.Since(start).Seconds()
	if !*noEvidence {
		var fnames []string
		modes := map[string]string{}
		for _, r := range results {
			fnames = append(fnames, r.Key)
			if r.Mode == ModeBV {
				modes[r.Key] = "bit-vectors (int=64)"
			} else {
				modes[r.Key] = "mathematical integers"
			}
		}
		var tb []string
		for t := range trusted {
			tb = append(tb, t)
		}
		sort.Strings(tb)
		tb = append([]string{"tvc VC generator (SSA->SMT translation, memory model, call rule)", "go/packages + go/types + go/ssa (x/tools v0.29.0), Go 1.24.0 front end", "z3 5.1.0 / cvc5 1.0.x / z3 4.8.12 answer unsat only when unsatisfiable"}, tb...)
		var per []map[string]interface{}
		var samples []map[string]interface{}
		bySolver := map[string]int{}
		for i, o := range obls {
			per = append(per, map[string]interface{}{"name": o.Name, "kind": o.Kind, "result": o.Result, "solver": o.Solver, "ms": o.Ms, "vacuity_check": o.Vacuity})
			if o.Result == "unsat" {
				bySolver[o.Solver]++
			}
			if !o.Vacuity && len(samples) < 4 && (i+seed)%max(1, len(obls)/4) == 0 {
				samples = append(samples, map[string]interface{}{"name": o.Name, "clause": o.Desc, "position": o.Pos, "path_condition": truncate(o.Reach, 200), "goal": truncate(o.Goal, 600), "result": o.Result})
			}
		}
		if len(samples) == 0 && len(obls) > 0 {
			o := obls[0]
			samples = append(samples, map[string]interface{}{"name": o.Name, "clause": o.Desc, "goal": truncate(o.Goal, 600), "result": o.Result})
		}
		var assumptions []string
		assumptions = append(assumptions, cfg.Assume...)
		var ns []string
		for n := range notes {
			ns = append(ns, n)
		}
		sort.Strings(ns)
		assumptions = append(assumptions, ns...)
		assumptions = append(assumptions, "termination is not proved", "machine integers are mathematical integers in int-mode functions unless `arith` is set (then overflow is an obligation)")
		nObl := len(passing) + len(failing)
		var knownList, unprovedList []string
		for _, o := range knownSeen {
			knownList = append(knownList, o.Name)
		}
		for _, o := range unprovedSeen {
			unprovedList = append(unprovedList, o.Name)
		}
		ev := map[string]interface{}{
			"property_id": id, "tier": *tier, "seed": seed, "level": "proof",
			"coverage": map[string]interface{}{
				"obligations": nObl, "discharged": len(passing),
				"checker_cmd":              fmt.Sprintf("bin/tvc check -prop %s -tier %s (VCs from go/ssa of /repo working tree; z3-new | cvc5 | z3 raced per obligation)", id, *tier),
				"trusted_base":             tb,
				"samples":                  samples,
				"functions_under_contract": fnames,
				"int_mode":                 modes,
				"discharged_by_solver":     bySolver,
				"per_obligation":           per,
				"vacuity":                  map[string]int{"checks": nVac, "confirmed_sat": nVacOK, "contradictory": len(vacuityBad)},
				"known_findings_reported":  knownList,
				"unreachable_return_statements": unreachableReturns,
				"generated_but_unproved_not_counted": unprovedList,
				"unproved_clauses":         cfg.Unproved,
				"bounded":                  boundedEv,
				"undecided":                undecided,
				"contract_files":           relFiles(specs.Files),
				"solver_s":                 float64(solverMs) / 1000.0,
				"load_s":                   loadS, "vcgen_s": genS,
			},
			"assumptions": assumptions,
			"wall_s":      wall,
			"violations":  violations,
		}
		os.MkdirAll(filepath.Join(vd, "evidence"), 0o755)
		b, _ := json.MarshalIndent(ev, "", " ")
		os.WriteFile(filepath.Join(vd, "evidence", id+".json"), b, 0o644)
	}
	for _, u := range unreachableReturns {
		fmt.Println("note: unreachable return statement (paths through it are vacuous):", u)
	}
	fmt.Printf("%s: %d functions, %d obligations (%d discharged, %d failing, %d known, %d unproved-not-counted), vacuity %d/%d, load %.1fs vcgen %.1fs solver %.1fs wall %.1fs -> exit %d\n",
		id, len(results), len(passing)+len(failing), len(passing), len(failing), len(knownSeen), len(unprovedSeen), nVacOK, nVac, loadS, genS, float64(solverMs)/1000, wall, exit)
	return exit
}

func relFiles(fs []string) []string {
	var out []string
	for _, f := range fs {
		out = append(out, f)
	}
	return out
}

func truncate(s string, n int) string {
	if len(s) > n {
		return s[:n] + "…"
	}
	return s
}

func oblKindOf(name string) string {
	i := strings.Index(name, "#")
	if i < 0 {
		if strings.HasPrefix(name, "lemma:") {
			return "lemma"
		}
		return ""
	}
	rest := name[i+1:]
	for j, c := range rest {
		if c == ':' || c == '#' {
			return rest[:j]
		}
	}
	return rest
}

func hasGuardSite(eng *Engine, fn *ssa.Function, guards []*Guard) bool {
	if fn.Blocks == nil {
		return false
	}
	for _, b := range fn.Blocks {
		for _, in := range b.Instrs {
			switch in := in.(type) {
			case ssa.CallInstruction:
				key := calleeKey(in.Common())
				_, isGo := in.(*ssa.Go)
				for _, g := range guards {
					if ((g.Kind == "call" && !isGo) || (g.Kind == "go" && isGo)) && guardMatchesCallee(g.Target, key) {
						return true
					}
				}
			case *ssa.MakeChan:
				for _, g := range guards {
					if g.Kind == "makechan" && (g.In == "" || strings.HasSuffix(funcKey(fn), "."+g.In)) {
						return true
					}
				}
			case *ssa.MapUpdate:
				if mt, ok := in.Map.Type().Underlying().(*types.Map); ok {
					keyName := types.TypeString(mt.Key(), func(*types.Package) string { return "" })
					for _, g := range guards {
						if g.Kind == "mapupdate" && (g.Target == "*" || g.Target == keyName) && (g.In == "" || strings.HasSuffix(funcKey(fn), "."+g.In)) {
							return true
						}
					}
				}
			case *ssa.Store:
				if fa, ok := in.Addr.(*ssa.FieldAddr); ok {
					st := derefType(fa.X.Type())
					x := &FnExec{eng: eng, q: newQ(ModeInt)}
					hn, _, _ := x.fieldHeap(st, fa.Field)
					for _, g := range guards {
						if g.Kind == "store" && eng.guardMatchesField(g, hn) && (g.In == "" || strings.HasSuffix(funcKey(fn), "."+g.In)) {
							return true
						}
					}
				}
			}
		}
	}
	return false
}

// replaysBase: where replay files go (default /verif/replays; TVC_REPLAY_DIR redirects them, used by the seed runner)
func replaysBase(vd string) string {
	if d := os.Getenv("TVC_REPLAY_DIR"); d != "" {
		return d
	}
	return filepath.Join(vd, "replays")
}
