package main

import (
	"fmt"
	"go/constant"
	"go/token"
	"go/types"
	"sort"
	"strings"

	"golang.org/x/tools/go/ssa"
)

// ---------------------------------------------------------------------------
// Values, addresses, state
// ---------------------------------------------------------------------------

type Val struct {
	S     string     // SMT term
	T     types.Type // Go type (nil for ghost)
	Tuple []Val
	Addr  *Addr
	Fn    *ssa.Function // statically known function value (closure or func)
	Binds []Val         // closure bindings when Fn is a closure
	Sort  string        // explicit sort for ghost values (T == nil)
}

const (
	rootField = iota
	rootElem
	rootBox
	rootGlobal
	rootArr // whole backing array of a *[N]T: E_T[base]
)

type PathStep struct {
	Field  int
	Struct types.Type // struct type the field belongs to
	Index  string     // if non-empty: array index step
	ArrT   types.Type
}

type Addr struct {
	Root   int
	Base   string // Ref term: struct pointer / array ref / box ref
	Idx    string // rootElem: absolute index
	Heap   string // heap name
	HSort  string // heap sort
	RootT  types.Type
	Path   []PathStep
	T      types.Type // type of the addressed location
	Global *ssa.Global
}

func (a *Addr) key() string {
	s := fmt.Sprintf("%d|%s|%s|%s", a.Root, a.Base, a.Idx, a.Heap)
	for _, p := range a.Path {
		s += fmt.Sprintf("/%d:%s", p.Field, p.Index)
	}
	return s
}

func (v Val) key() string {
	if v.Addr != nil {
		return "@" + v.Addr.key()
	}
	if len(v.Tuple) > 0 {
		var ks []string
		for _, t := range v.Tuple {
			ks = append(ks, t.key())
		}
		return "(" + strings.Join(ks, ",") + ")"
	}
	if v.Fn != nil {
		return "fn:" + v.Fn.String() + v.S
	}
	return v.S
}

// State: current SMT term for every heap/state variable touched so far.
type State struct {
	heap map[string]string
}

func (s *State) clone() *State {
	n := &State{heap: make(map[string]string, len(s.heap))}
	for k, v := range s.heap {
		n.heap[k] = v
	}
	return n
}

// ---------------------------------------------------------------------------
// Obligations
// ---------------------------------------------------------------------------

type Obligation struct {
	Name    string
	Kind    string
	Func    string
	Prefix  int    // body prefix length
	Reach   string // path condition literal
	Goal    string
	Desc    string // human readable (source clause)
	Pos     string // file:line (informational only; never part of the name)
	Q       *Q
	Vacuity bool     // expected SAT (cover)
	Values  []string // terms to get-value on sat (model extraction)
	ValueNames []string
	Props   []string
	Budget  int // seconds; 0 = default retry budget
	// results
	Result string // unsat | sat | unknown | timeout | error
	Solver string
	Ms     int64
	Model  string
	Output string
}

// ---------------------------------------------------------------------------
// Function execution context
// ---------------------------------------------------------------------------

type loopInfo struct {
	header  *ssa.BasicBlock
	blocks  map[*ssa.BasicBlock]bool
	ordinal int
	unroll  int
	invs    []*Clause
	parent  *loopInfo
}

type frame struct {
	fn       *ssa.Function
	params   []Val
	free     []Val
	loops    map[*ssa.BasicBlock]*loopInfo // by header
	loopOf   map[*ssa.BasicBlock]*loopInfo // innermost loop containing block
	spec     *FuncSpec
	depth    int
	defers   []deferred
	names    map[string]ssa.Value // local name -> value (for contract expressions), built lazily
	oldState *State               // state at function entry
	results  []Val
	callOrd  map[string]int
	siteOrd  map[ssa.Instruction]int
	inlineOf *frame
	tag      string // unique prefix for names of this frame
}

type deferred struct {
	call  *ssa.Defer
	guard string
	env   map[ssa.Value]Val
}

type exitInfo struct {
	reach   string
	st      *State
	results []Val
}

type FnExec struct {
	ownerRefsT types.Type
	netipAddrT types.Type
	convSt     *State // state at the conversion being translated
	labelled   map[string]*labelledGuard
	labelOrder []string
	eng      *Engine
	q        *Q
	top      *ssa.Function
	topSpec  *FuncSpec
	mode     Mode
	obls     []*Obligation
	ordinals map[string]int
	panics   bool
	arithChk bool
	errs     []string
	ghost    map[string]string // ghost var -> heap key
	allocN   int
	frameN   int
	props    []string
	trusted  map[string]bool // trusted things used (lib models, default summaries)
	inputs   []string
	inputNames []string
	depthLimit int
	caseTag    string
	coverReturns bool
	timeType     types.Type
	heapInvs   map[string][]*HeapInv // resolved lazily: heap name -> invariants
}

// invsFor resolves the heap invariants that apply to a heap name (value heaps of maps count under the MV_ name).
func (x *FnExec) invsFor(heap string) []*HeapInv {
	if x.heapInvs == nil {
		x.heapInvs = map[string][]*HeapInv{}
		for _, hi := range x.eng.specs.HeapInvs {
			names, err := x.eng.resolveHeapSpec(x, hi.Pkg, hi.Heap)
			if err != nil {
				x.errf("invariant %q: %v", hi.Src, err)
				continue
			}
			for _, n := range names {
				if strings.HasPrefix(n, "|MD_") || strings.HasPrefix(n, "|ML_") {
					continue
				}
				x.heapInvs[n] = append(x.heapInvs[n], hi)
			}
		}
	}
	return x.heapInvs[heap]
}

// assumeCellInv: a value just read from `heap` satisfies the heap's invariants.
func (x *FnExec) assumeCellInv(fr *frame, st *State, reach, heap, val string, t types.Type) {
	for _, hi := range x.invsFor(heap) {
		ctx := &evalCtx{env: map[ssa.Value]Val{}, st: st, old: st, noLocals: true, pkg: x.eng.pkgByPath(hi.Pkg), extra: map[string]Val{"value": {S: val, T: t}}}
		g, err := x.evalBool(fr, hi.Expr, ctx)
		if err != nil {
			x.errf("invariant %q: %v", hi.Src, err)
			continue
		}
		x.q.assert(implies(reach, g))
	}
}

// proveCellInv: a value about to be written into `heap` satisfies the heap's invariants.
func (x *FnExec) proveCellInv(fr *frame, st *State, reach, heap, val string, t types.Type, pos token.Pos) {
	for _, hi := range x.invsFor(heap) {
		ctx := &evalCtx{env: map[ssa.Value]Val{}, st: st, old: st, noLocals: true, pkg: x.eng.pkgByPath(hi.Pkg), extra: map[string]Val{"value": {S: val, T: t}}}
		g, err := x.evalBool(fr, hi.Expr, ctx)
		if err != nil {
			x.errf("invariant %q: %v", hi.Src, err)
			continue
		}
		x.addObl("typeinv", strings.Trim(heap, "|"), reach, g, "value stored keeps the cell invariant: "+hi.Src, pos)
	}
}

func (x *FnExec) errf(format string, args ...interface{}) {
	x.errs = append(x.errs, fmt.Sprintf(format, args...))
}

func (x *FnExec) oblName(kind, detail string) string {
	base := funcKey(x.top) + x.caseTag + "#" + kind
	if detail != "" {
		base += ":" + detail
	}
	x.ordinals[base]++
	return fmt.Sprintf("%s#%d", base, x.ordinals[base])
}

func (x *FnExec) addObl(kind, detail, reach, goal, desc string, pos token.Pos) *Obligation {
	o := &Obligation{Name: x.oblName(kind, detail), Kind: kind, Func: funcKey(x.top), Prefix: len(x.q.body), Reach: reach, Goal: goal, Desc: desc, Q: x.q, Props: x.props}
	if x.topSpec != nil {
		o.Budget = x.topSpec.Budget
	}
	if pos.IsValid() {
		p := x.eng.prog.SSA.Fset.Position(pos)
		o.Pos = fmt.Sprintf("%s:%d", strings.TrimPrefix(p.Filename, x.eng.prog.RepoDir+"/"), p.Line)
	}
	o.Values, o.ValueNames = x.inputs, x.inputNames
	x.obls = append(x.obls, o)
	return o
}

// ---------------------------------------------------------------------------
// heap access
// ---------------------------------------------------------------------------

func (x *FnExec) heapGet(st *State, name, sort string) string {
	if t, ok := st.heap[name]; ok {
		return t
	}
	x.q.heapDecl(name, sort)
	st.heap[name] = name
	return name
}

func (x *FnExec) heapSet(st *State, name, sort, term string) {
	x.q.heapDecl(name, sort)
	// name intermediate heap versions to keep terms small
	st.heap[name] = x.q.define("h_"+name, sort, term)
}

func (x *FnExec) heapHavoc(st *State, name string) {
	sort, ok := x.q.heaps[name]
	if !ok {
		return
	}
	st.heap[name] = x.q.freshConst("hv_"+name, sort)
}

func (x *FnExec) fieldHeap(structT types.Type, field int) (name, sort string, ft types.Type) {
	st := structT.Underlying().(*types.Struct)
	f := st.Field(field)
	name = "H_" + typeShort(structT) + "." + mangle(f.Name())
	name = "|" + name + "|"
	if x.eng != nil {
		x.eng.heapStruct[name] = structT
	}
	return name, fmt.Sprintf("(Array Ref %s)", x.q.sortOf(f.Type())), f.Type()
}

func (x *FnExec) elemHeap(elemT types.Type) (name, sort string) {
	es := x.q.sortOf(elemT)
	key := typeShort(elemT.Underlying())
	if _, ok := elemT.Underlying().(*types.Struct); ok {
		key = typeShort(elemT)
	}
	if isInteger(elemT) || isString(elemT) || isBool(elemT) || isFloat(elemT) {
		key = typeShort(elemT.Underlying())
	}
	return "|E_" + key + "|", fmt.Sprintf("(Array Ref (Array %s %s))", x.q.intSort(), es)
}

func (x *FnExec) boxHeap(t types.Type) (name, sort string) {
	key := typeShort(t)
	if isInteger(t) || isString(t) || isBool(t) || isFloat(t) {
		key = typeShort(t.Underlying())
	}
	return "|B_" + key + "|", fmt.Sprintf("(Array Ref %s)", x.q.sortOf(t))
}

func (x *FnExec) mapHeaps(mt *types.Map) (dom, val, ln string, ks, vs string) {
	ks, vs = x.q.sortOf(mt.Key()), x.q.sortOf(mt.Elem())
	key := typeShort(mt.Key()) + "_" + typeShort(mt.Elem())
	return "|MD_" + key + "|", "|MV_" + key + "|", "|ML_" + key + "|", ks, vs
}

func derefType(t types.Type) types.Type {
	if p, ok := t.Underlying().(*types.Pointer); ok {
		return p.Elem()
	}
	return t
}

// pointerAddr: interpret a pointer-typed Val as an address of its pointee.
func (x *FnExec) pointerAddr(v Val) *Addr {
	if v.Addr != nil {
		return v.Addr
	}
	pt, ok := v.T.Underlying().(*types.Pointer)
	if !ok {
		return nil
	}
	elem := pt.Elem()
	if _, isStruct := elem.Underlying().(*types.Struct); isStruct {
		// whole-struct location: Root field with Field=-1
		return &Addr{Root: rootField, Base: v.S, RootT: elem, T: elem, Heap: "", Path: nil, Idx: "whole"}
	}
	if at, isArr := elem.Underlying().(*types.Array); isArr {
		name, sort := x.elemHeap(at.Elem())
		return &Addr{Root: rootArr, Base: v.S, Heap: name, HSort: sort, RootT: elem, T: elem}
	}
	name, sort := x.boxHeap(elem)
	return &Addr{Root: rootBox, Base: v.S, Heap: name, HSort: sort, RootT: elem, T: elem}
}

// loadAddr reads the value stored at a symbolic address.
func (x *FnExec) loadAddr(st *State, a *Addr) string {
	var root string
	switch a.Root {
	case rootField:
		if a.Idx == "whole" {
			// assemble struct from field heaps
			stt := a.RootT.Underlying().(*types.Struct)
			fs := make([]string, stt.NumFields())
			for i := range fs {
				n, s, _ := x.fieldHeap(a.RootT, i)
				fs[i] = sel(x.heapGet(st, n, s), a.Base)
			}
			root = x.q.mkStruct(a.RootT, fs)
		} else {
			root = x.q.rw(x.heapGet(st, a.Heap, a.HSort), a.Base)
		}
	case rootElem:
		root = sel(x.q.rw(x.heapGet(st, a.Heap, a.HSort), a.Base), a.Idx)
	case rootBox, rootArr:
		root = x.q.rw(x.heapGet(st, a.Heap, a.HSort), a.Base)
	case rootGlobal:
		root = x.heapGet(st, a.Heap, a.HSort)
	}
	cur := root
	for _, p := range a.Path {
		if p.Index != "" {
			cur = sel(cur, p.Index)
		} else {
			cur = x.q.structGet(p.Struct, cur, p.Field)
		}
	}
	return cur
}

func (x *FnExec) updatePath(cur string, path []PathStep, v string) string {
	if len(path) == 0 {
		return v
	}
	p := path[0]
	if p.Index != "" {
		inner := x.updatePath(sel(cur, p.Index), path[1:], v)
		return sto(cur, p.Index, inner)
	}
	inner := x.updatePath(x.q.structGet(p.Struct, cur, p.Field), path[1:], v)
	return x.q.structSet(p.Struct, cur, p.Field, inner)
}

func (x *FnExec) storeAddr(st *State, a *Addr, v string) {
	switch a.Root {
	case rootField:
		if a.Idx == "whole" {
			if len(a.Path) > 0 {
				cur := x.loadAddr(st, &Addr{Root: rootField, Base: a.Base, RootT: a.RootT, T: a.RootT, Idx: "whole"})
				v = x.updatePath(cur, a.Path, v)
			}
			stt := a.RootT.Underlying().(*types.Struct)
			vv := x.q.define("sv", x.q.sortOf(a.RootT), v)
			for i := 0; i < stt.NumFields(); i++ {
				n, s, _ := x.fieldHeap(a.RootT, i)
				x.heapSet(st, n, s, sto(x.heapGet(st, n, s), a.Base, x.q.structGet(a.RootT, vv, i)))
			}
			return
		}
		h := x.heapGet(st, a.Heap, a.HSort)
		nv := x.updatePath(sel(h, a.Base), a.Path, v)
		x.heapSet(st, a.Heap, a.HSort, sto(h, a.Base, nv))
	case rootElem:
		h := x.heapGet(st, a.Heap, a.HSort)
		arr := sel(h, a.Base)
		nv := x.updatePath(sel(arr, a.Idx), a.Path, v)
		x.heapSet(st, a.Heap, a.HSort, sto(h, a.Base, sto(arr, a.Idx, nv)))
	case rootBox, rootArr:
		h := x.heapGet(st, a.Heap, a.HSort)
		nv := x.updatePath(sel(h, a.Base), a.Path, v)
		x.heapSet(st, a.Heap, a.HSort, sto(h, a.Base, nv))
	case rootGlobal:
		h := x.heapGet(st, a.Heap, a.HSort)
		nv := x.updatePath(h, a.Path, v)
		x.heapSet(st, a.Heap, a.HSort, nv)
	}
}

// materialize turns an address value into a Ref term (imprecise: identity only).
func (x *FnExec) materialize(v Val) string {
	if v.Addr == nil {
		return v.S
	}
	a := v.Addr
	if a.Root == rootField && a.Idx == "whole" && len(a.Path) == 0 {
		return a.Base
	}
	if (a.Root == rootBox || a.Root == rootArr) && len(a.Path) == 0 {
		return a.Base
	}
	// field/element address escaping as a pointer: injective uninterpreted location function
	fname := "loc_" + mangle(a.Heap)
	for _, p := range a.Path {
		fname += fmt.Sprintf("_%d", p.Field)
	}
	var loc string
	switch a.Root {
	case rootElem:
		x.q.declareFun(fname, []string{"Ref", x.q.intSort()}, "Ref")
		loc = fmt.Sprintf("(%s %s %s)", fname, a.Base, a.Idx)
	case rootGlobal:
		x.q.declare(fname, "Ref")
		loc = fname
	default:
		x.q.declareFun(fname, []string{"Ref"}, "Ref")
		loc = fmt.Sprintf("(%s %s)", fname, a.Base)
	}
	x.q.assert(not(eq(loc, "nil"))) // the address of an existing field / element / variable is never nil
	return loc
}

func (x *FnExec) scalar(v Val) string {
	if v.Addr != nil {
		return x.materialize(v)
	}
	return v.S
}

// ---------------------------------------------------------------------------
// validity facts for values of a Go type
// ---------------------------------------------------------------------------

func (x *FnExec) validFact(term string, t types.Type, depth int) string {
	switch u := t.Underlying().(type) {
	case *types.Basic:
		if u.Info()&types.IsInteger != 0 && x.mode == ModeInt {
			bits, signed := basicBits(u)
			if bits == 0 {
				return "true"
			}
			if !signed {
				if bits >= 64 {
					return fmt.Sprintf("(>= %s 0)", term)
				}
				return fmt.Sprintf("(and (>= %s 0) (< %s %d))", term, term, uint64(1)<<uint(bits))
			}
			if bits >= 64 {
				return fmt.Sprintf("(and (>= %s (- 9223372036854775808)) (<= %s 9223372036854775807))", term, term)
			}
			return fmt.Sprintf("(and (>= %s (- %d)) (< %s %d))", term, uint64(1)<<uint(bits-1), term, uint64(1)<<uint(bits-1))
		}
		if u.Info()&types.IsString != 0 {
			if x.mode == ModeInt {
				return fmt.Sprintf("(and (>= (strlen %s) 0) (<= (strlen %s) 4611686018427387904))", term, term)
			}
			return fmt.Sprintf("(and (bvsge (strlen %s) (_ bv0 64)) (bvslt (strlen %s) (_ bv4294967296 64)))", term, term)
		}
	case *types.Slice:
		return fmt.Sprintf("(slice_ok %s)", term)
	case *types.Struct:
		if depth <= 0 {
			return "true"
		}
		var fs []string
		for i := 0; i < u.NumFields(); i++ {
			fs = append(fs, x.validFact(x.q.structGet(t, term, i), u.Field(i).Type(), depth-1))
		}
		return and(fs...)
	case *types.Map:
		return "true"
	}
	return "true"
}

func (x *FnExec) assumeValid(reach, term string, t types.Type) {
	f := x.validFact(term, t, 2)
	if f != "true" {
		x.q.assert(implies(reach, f))
	}
	if mt, ok := t.Underlying().(*types.Map); ok {
		_ = mt
	}
}

// fresh value of a Go type (arbitrary but type-valid)
func (x *FnExec) havocVal(hint string, t types.Type, reach string) Val {
	if tup, ok := t.(*types.Tuple); ok {
		var vs []Val
		for i := 0; i < tup.Len(); i++ {
			vs = append(vs, x.havocVal(fmt.Sprintf("%s_%d", hint, i), tup.At(i).Type(), reach))
		}
		return Val{Tuple: vs, T: t}
	}
	c := x.q.freshConst(hint, x.q.sortOf(t))
	x.assumeValid("true", c, t)
	return Val{S: c, T: t}
}

// ---------------------------------------------------------------------------
// constants
// ---------------------------------------------------------------------------

func (x *FnExec) constVal(c *ssa.Const) Val {
	t := c.Type()
	if c.Value == nil {
		return Val{S: x.q.zero(t), T: t}
	}
	switch c.Value.Kind() {
	case constant.Bool:
		if constant.BoolVal(c.Value) {
			return Val{S: "true", T: t}
		}
		return Val{S: "false", T: t}
	case constant.String:
		return Val{S: x.q.strLit(constant.StringVal(c.Value)), T: t}
	case constant.Int:
		if isFloat(t) {
			f, _ := constant.Float64Val(c.Value)
			return Val{S: realLit(f), T: t}
		}
		if i, ok := constant.Int64Val(c.Value); ok {
			return Val{S: x.q.intLit(i, t), T: t}
		}
		if u, ok := constant.Uint64Val(c.Value); ok {
			if x.mode == ModeBV {
				return Val{S: fmt.Sprintf("(_ bv%d %d)", u, x.q.bitsOf(t)), T: t}
			}
			return Val{S: fmt.Sprintf("%d", u), T: t}
		}
		return Val{S: c.Value.ExactString(), T: t}
	case constant.Float:
		f, _ := constant.Float64Val(c.Value)
		if isInteger(t) {
			return Val{S: x.q.intLit(int64(f), t), T: t}
		}
		return Val{S: realLit(f), T: t}
	}
	return Val{S: x.q.zero(t), T: t}
}

func realLit(f float64) string {
	s := fmt.Sprintf("%f", f)
	if f < 0 {
		return fmt.Sprintf("(- %f)", -f)
	}
	return s
}

// ---------------------------------------------------------------------------
// Loop analysis
// ---------------------------------------------------------------------------

func analyzeLoops(fn *ssa.Function, spec *FuncSpec) (map[*ssa.BasicBlock]*loopInfo, map[*ssa.BasicBlock]*loopInfo) {
	loops := map[*ssa.BasicBlock]*loopInfo{}
	for _, b := range fn.Blocks {
		for _, s := range b.Succs {
			if s.Dominates(b) { // back edge b->s
				li := loops[s]
				if li == nil {
					li = &loopInfo{header: s, blocks: map[*ssa.BasicBlock]bool{s: true}}
					loops[s] = li
				}
				// collect natural loop body
				stack := []*ssa.BasicBlock{b}
				for len(stack) > 0 {
					n := stack[len(stack)-1]
					stack = stack[:len(stack)-1]
					if li.blocks[n] {
						continue
					}
					li.blocks[n] = true
					stack = append(stack, n.Preds...)
				}
			}
		}
	}
	var hs []*ssa.BasicBlock
	for h := range loops {
		hs = append(hs, h)
	}
	sort.Slice(hs, func(i, j int) bool { return hs[i].Index < hs[j].Index })
	for i, h := range hs {
		li := loops[h]
		li.ordinal = i + 1
		if spec != nil {
			li.unroll = spec.Unroll[li.ordinal]
			li.invs = spec.LoopInv[li.ordinal]
		}
	}
	// innermost loop per block; parent links
	loopOf := map[*ssa.BasicBlock]*loopInfo{}
	for _, h := range hs {
		li := loops[h]
		for b := range li.blocks {
			cur := loopOf[b]
			if cur == nil || len(li.blocks) < len(cur.blocks) {
				loopOf[b] = li
			}
		}
	}
	for _, h := range hs {
		li := loops[h]
		// parent: smallest other loop containing header
		for _, h2 := range hs {
			l2 := loops[h2]
			if l2 != li && l2.blocks[h] && (li.parent == nil || len(l2.blocks) < len(li.parent.blocks)) {
				li.parent = l2
			}
		}
	}
	return loops, loopOf
}

// ---------------------------------------------------------------------------
// Expanded node graph (unrolling)
// ---------------------------------------------------------------------------

type ctxEntry struct {
	loop *loopInfo
	iter int
}

type node struct {
	b     *ssa.BasicBlock
	ctx   []ctxEntry
	key   string
	preds []*edge
	succs []*edge
	// processing results
	env    map[ssa.Value]Val
	st     *State
	reach  string
	done   bool
	outSt  *State
	order  int
}

type edge struct {
	from, to *node
	succIdx  int
	cond     string // filled during processing
	kind     int    // 0 normal, 1 backedge-cut (to = header node of cut loop; not part of DAG), 2 unwind-exceeded
	cutLoop  *loopInfo
}

func ctxKey(b *ssa.BasicBlock, ctx []ctxEntry) string {
	s := fmt.Sprintf("%d", b.Index)
	for _, c := range ctx {
		s += fmt.Sprintf("/%d.%d", c.loop.header.Index, c.iter)
	}
	return s
}

func (x *FnExec) expand(fr *frame) ([]*node, error) {
	nodes := map[string]*node{}
	var order []*node
	var mk func(b *ssa.BasicBlock, ctx []ctxEntry) *node
	var work []*node
	mk = func(b *ssa.BasicBlock, ctx []ctxEntry) *node {
		k := ctxKey(b, ctx)
		if n, ok := nodes[k]; ok {
			return n
		}
		n := &node{b: b, ctx: append([]ctxEntry{}, ctx...), key: k}
		nodes[k] = n
		work = append(work, n)
		return n
	}
	entry := mk(fr.fn.Blocks[0], nil)
	for len(work) > 0 {
		n := work[len(work)-1]
		work = work[:len(work)-1]
		order = append(order, n)
		if len(order) > 6000 {
			return nil, fmt.Errorf("unrolled graph too large (>6000 nodes)")
		}
		for i, s := range n.b.Succs {
			ctx := append([]ctxEntry{}, n.ctx...)
			// pop unrolled loops that n.b is in but s is not
			for len(ctx) > 0 && !ctx[len(ctx)-1].loop.blocks[s] {
				ctx = ctx[:len(ctx)-1]
			}
			e := &edge{from: n, succIdx: i}
			if li, isHeader := fr.loops[s]; isHeader {
				if li.blocks[n.b] { // back edge
					if li.unroll > 0 {
						top := &ctx[len(ctx)-1]
						if top.loop != li {
							return nil, fmt.Errorf("internal: unroll context mismatch at block %d", s.Index)
						}
						if top.iter+1 > li.unroll {
							e.kind = 2
							e.cutLoop = li
							n.succs = append(n.succs, e)
							continue
						}
						top.iter++
					} else {
						e.kind = 1
						e.cutLoop = li
						e.to = nil
						n.succs = append(n.succs, e)
						continue
					}
				} else if li.unroll > 0 {
					ctx = append(ctx, ctxEntry{li, 0})
				}
			}
			e.to = mk(s, ctx)
			n.succs = append(n.succs, e)
			e.to.preds = append(e.to.preds, e)
		}
	}
	_ = entry
	// topological order (Kahn) over DAG edges
	indeg := map[*node]int{}
	for _, n := range order {
		indeg[n] = len(n.preds)
	}
	var topo []*node
	var ready []*node
	for _, n := range order {
		if indeg[n] == 0 {
			ready = append(ready, n)
		}
	}
	for len(ready) > 0 {
		// pick smallest block index for determinism
		sort.SliceStable(ready, func(i, j int) bool { return ready[i].key < ready[j].key })
		n := ready[0]
		ready = ready[1:]
		topo = append(topo, n)
		for _, e := range n.succs {
			if e.kind == 0 {
				indeg[e.to]--
				if indeg[e.to] == 0 {
					ready = append(ready, e.to)
				}
			}
		}
	}
	if len(topo) != len(order) {
		return nil, fmt.Errorf("irreducible control flow (cannot order blocks) in %s", fr.fn.Name())
	}
	return topo, nil
}

// ---------------------------------------------------------------------------
// Write sets (which heaps a piece of code may modify) — syntactic, type-based
// ---------------------------------------------------------------------------

func (x *FnExec) writeSetBlocks(fr *frame, blocks map[*ssa.BasicBlock]bool, out map[string]bool, seen map[*ssa.Function]bool) {
	for b := range blocks {
		x.writeSetInstrs(fr.fn, b.Instrs, out, seen)
	}
}

func (x *FnExec) writeSetFn(fn *ssa.Function, out map[string]bool, seen map[*ssa.Function]bool) {
	if fn == nil || seen[fn] {
		return
	}
	seen[fn] = true
	if fn.Blocks == nil {
		return
	}
	for _, b := range fn.Blocks {
		x.writeSetInstrs(fn, b.Instrs, out, seen)
	}
}

func (x *FnExec) addrHeapsOfPointerType(ptrT types.Type, v ssa.Value, out map[string]bool) {
	// determine the heap a store through v would hit
	switch a := v.(type) {
	case *ssa.FieldAddr:
		st := derefType(a.X.Type())
		// nested: walk up to the root
		root, _ := x.rootOfAddr(a)
		if root != "" {
			out[root] = true
			return
		}
		n, s, _ := x.fieldHeap(st, a.Field)
		x.q.heapDecl(n, s)
		out[n] = true
	case *ssa.IndexAddr:
		root, _ := x.rootOfAddr(a)
		if root != "" {
			out[root] = true
		}
	case *ssa.Global:
		n, s := x.globalHeap(a)
		x.q.heapDecl(n, s)
		out[n] = true
	default:
		elem := derefType(v.Type())
		if at, ok := elem.Underlying().(*types.Array); ok {
			n, s := x.elemHeap(at.Elem())
			x.q.heapDecl(n, s)
			out[n] = true
			return
		}
		if stt, ok := elem.Underlying().(*types.Struct); ok {
			for i := 0; i < stt.NumFields(); i++ {
				n, s, _ := x.fieldHeap(elem, i)
				x.q.heapDecl(n, s)
				out[n] = true
			}
			return
		}
		n, s := x.boxHeap(elem)
		x.q.heapDecl(n, s)
		out[n] = true
	}
}

// rootOfAddr returns the heap name ultimately written by a store through the given address value.
func (x *FnExec) rootOfAddr(v ssa.Value) (string, bool) {
	switch a := v.(type) {
	case *ssa.FieldAddr:
		switch base := a.X.(type) {
		case *ssa.FieldAddr, *ssa.IndexAddr:
			return x.rootOfAddr(base)
		}
		st := derefType(a.X.Type())
		n, s, _ := x.fieldHeap(st, a.Field)
		x.q.heapDecl(n, s)
		return n, true
	case *ssa.IndexAddr:
		switch xt := a.X.Type().Underlying().(type) {
		case *types.Slice:
			n, s := x.elemHeap(xt.Elem())
			x.q.heapDecl(n, s)
			return n, true
		case *types.Pointer: // pointer to array
			switch base := a.X.(type) {
			case *ssa.FieldAddr, *ssa.IndexAddr:
				return x.rootOfAddr(base)
			}
			n, s := x.elemHeap(xt.Elem().Underlying().(*types.Array).Elem())
			x.q.heapDecl(n, s)
			return n, true
		}
	}
	return "", false
}

func (x *FnExec) globalHeap(g *ssa.Global) (string, string) {
	t := derefType(g.Type())
	return "|G_" + mangle(g.Pkg.Pkg.Name()+"."+g.Name()) + "|", x.q.sortOf(t)
}

func (x *FnExec) writeSetInstrs(fn *ssa.Function, instrs []ssa.Instruction, out map[string]bool, seen map[*ssa.Function]bool) {
	for _, in := range instrs {
		switch in := in.(type) {
		case *ssa.Store:
			if al, ok := in.Addr.(*ssa.Alloc); ok && !al.Heap {
				// non-escaping local: still a box in our model
				_ = al
			}
			x.addrHeapsOfPointerType(in.Addr.Type(), in.Addr, out)
		case *ssa.MapUpdate:
			if mt, ok := in.Map.Type().Underlying().(*types.Map); ok {
				d, v, l, ks, vs := x.mapHeaps(mt)
				x.q.heapDecl(d, fmt.Sprintf("(Array Ref (Array %s Bool))", ks))
				x.q.heapDecl(v, fmt.Sprintf("(Array Ref (Array %s %s))", ks, vs))
				x.q.heapDecl(l, fmt.Sprintf("(Array Ref %s)", x.q.intSort()))
				out[d], out[v], out[l] = true, true, true
			}
		case *ssa.Next:
			if r, ok := in.Iter.(*ssa.Range); ok {
				out[iterKey(r)] = true
			}
		case *ssa.MakeClosure:
			x.writeSetFn(in.Fn.(*ssa.Function), out, seen)
		case ssa.CallInstruction:
			x.writeSetCall(fn, in, out, seen)
		}
	}
}

func iterKey(r *ssa.Range) string { return fmt.Sprintf("$iter:%s:%s", r.Parent().Name(), r.Name()) }

func (x *FnExec) writeSetCall(fn *ssa.Function, in ssa.CallInstruction, out map[string]bool, seen map[*ssa.Function]bool) {
	c := in.Common()
	if c.IsInvoke() {
		if spec := x.eng.ifaceSpec(c); spec != nil {
			x.specModifies(spec, out)
		} else if lm := x.eng.libInvokeModel(c); lm != nil && lm.writes != nil {
			lm.writes(x, c, out)
		}
		return
	}
	switch callee := c.Value.(type) {
	case *ssa.Builtin:
		switch callee.Name() {
		case "append", "copy":
			if len(c.Args) > 0 {
				if sl, ok := c.Args[0].Type().Underlying().(*types.Slice); ok {
					n, s := x.elemHeap(sl.Elem())
					x.q.heapDecl(n, s)
					out[n] = true
				}
			}
		case "delete", "clear":
			if mt, ok := c.Args[0].Type().Underlying().(*types.Map); ok {
				d, v, l, ks, vs := x.mapHeaps(mt)
				x.q.heapDecl(d, fmt.Sprintf("(Array Ref (Array %s Bool))", ks))
				x.q.heapDecl(v, fmt.Sprintf("(Array Ref (Array %s %s))", ks, vs))
				x.q.heapDecl(l, fmt.Sprintf("(Array Ref %s)", x.q.intSort()))
				out[d], out[l] = true, true
				_ = v
			}
		}
	case *ssa.Function:
		if spec := x.eng.specFor(callee); spec != nil && spec.HasMod && !spec.Inline {
			x.specModifies(spec, out)
			return
		}
		if lm := x.eng.libModel(callee); lm != nil {
			if lm.writes != nil {
				lm.writes(x, c, out)
			}
			return
		}
		if x.eng.isRepoFunc(callee) {
			x.eng.ensureBuilt(callee)
			x.writeSetFn(callee, out, seen)
		}
	case *ssa.MakeClosure:
		x.writeSetFn(callee.Fn.(*ssa.Function), out, seen)
	}
	// closures passed as arguments may be called: include their write sets
	for _, a := range c.Args {
		if mc, ok := a.(*ssa.MakeClosure); ok {
			x.writeSetFn(mc.Fn.(*ssa.Function), out, seen)
		}
	}
}

// specModifies resolves "Type.field", "elem T", "map K V", "box T", "global X" entries to heap names.
func (x *FnExec) specModifies(spec *FuncSpec, out map[string]bool) {
	for _, m := range spec.Modifies {
		names, err := x.eng.resolveHeapSpec(x, spec.Pkg, m)
		if err != nil {
			x.errf("modifies %q in %s: %v", m, spec.Key, err)
			continue
		}
		for _, n := range names {
			out[n] = true
		}
	}
}
