package main

import (
	"context"
	"encoding/json"
	"os"
	"os/exec"
	"path/filepath"
	"strings"
	"time"
)

// runHarness injects /verif/harness/<file> into <repo>/<pkg> as an in-package test via `go test -overlay`
// (nothing is written into the repository) and runs the named test against the real code.
func runHarness(repo, pkg, file, test string, env map[string]string) (bool, string) {
	dir := scratchDir()
	defer os.RemoveAll(dir)
	ov := map[string]map[string]string{"Replace": {filepath.Join(repo, pkg, "zz_tvc_harness_test.go"): filepath.Join(verifDir(), "harness", file)}}
	b, _ := json.Marshal(ov)
	ovf := filepath.Join(dir, "ov.json")
	os.WriteFile(ovf, b, 0o644)
	ctx, cancel := context.WithTimeout(context.Background(), 300*time.Second)
	defer cancel()
	cmd := exec.CommandContext(ctx, "go", "test", "-overlay", ovf, "-tags", "default_build", "-vet=off", "-count=1", "-timeout", "240s", "-v", "-run", "^"+test+"$", "./"+pkg+"/")
	cmd.Dir = repo
	cmd.Env = append(os.Environ(), "GOFLAGS=-mod=mod", "GOPROXY=off")
	for k, v := range env {
		cmd.Env = append(cmd.Env, k+"="+v)
	}
	out, err := cmd.CombinedOutput()
	return err == nil, string(out)
}

// parseModel extracts the (get-value ...) answers for the function inputs from the solver output.
func parseModel(o *Obligation) map[string]string {
	out := map[string]string{}
	txt := o.Output
	i := strings.Index(txt, "\n")
	if i < 0 {
		return out
	}
	body := strings.TrimSpace(txt[i+1:])
	// body looks like ((term value) (term value) ...)
	sx := parseSexps(body)
	if len(sx) == 0 {
		return out
	}
	for k, pair := range sx[0].list {
		if len(pair.list) == 2 && k < len(o.ValueNames) {
			out[o.ValueNames[k]] = pair.list[1].String()
		}
	}
	return out
}

type sexp struct {
	atom string
	list []*sexp
	isList bool
}

func (s *sexp) String() string {
	if !s.isList {
		return s.atom
	}
	var ps []string
	for _, e := range s.list {
		ps = append(ps, e.String())
	}
	return "(" + strings.Join(ps, " ") + ")"
}

func parseSexps(s string) []*sexp {
	var out []*sexp
	pos := 0
	var parse func() *sexp
	skip := func() {
		for pos < len(s) && (s[pos] == ' ' || s[pos] == '\n' || s[pos] == '\t' || s[pos] == '\r') {
			pos++
		}
	}
	parse = func() *sexp {
		skip()
		if pos >= len(s) {
			return nil
		}
		if s[pos] == '(' {
			pos++
			n := &sexp{isList: true}
			for {
				skip()
				if pos >= len(s) {
					return n
				}
				if s[pos] == ')' {
					pos++
					return n
				}
				c := parse()
				if c == nil {
					return n
				}
				n.list = append(n.list, c)
			}
		}
		start := pos
		if s[pos] == '|' {
			pos++
			for pos < len(s) && s[pos] != '|' {
				pos++
			}
			pos++
			return &sexp{atom: s[start:pos]}
		}
		if s[pos] == '"' {
			pos++
			for pos < len(s) && s[pos] != '"' {
				pos++
			}
			pos++
			return &sexp{atom: s[start:pos]}
		}
		for pos < len(s) && !strings.ContainsRune(" \n\t\r()", rune(s[pos])) {
			pos++
		}
		return &sexp{atom: s[start:pos]}
	}
	for {
		skip()
		if pos >= len(s) {
			break
		}
		e := parse()
		if e == nil {
			break
		}
		out = append(out, e)
	}
	return out
}

// tryReplay: per-function replay harnesses live in replay_harness.go; default: none.
func tryReplay(eng *Engine, o *Obligation, model map[string]string, prop string) (bool, string) {
	if h, ok := replayHarness[o.Func]; ok {
		return h(eng, o, model, prop)
	}
	return false, "no replay harness for " + o.Func
}

var replayHarness = map[string]func(eng *Engine, o *Obligation, model map[string]string, prop string) (bool, string){}
