package main

import (
	"fmt"
	"os"
)

func main() {
	if len(os.Args) < 2 {
		fmt.Fprintln(os.Stderr, "usage: tvc dump <pkg> <func> | check ...")
		os.Exit(2)
	}
	switch os.Args[1] {
	case "dump":
		p, err := loadProgram([]string{os.Args[2]})
		if err != nil {
			fmt.Fprintln(os.Stderr, err)
			os.Exit(2)
		}
		fn := p.lookupFunc(p.Targets[0], os.Args[3])
		if fn == nil {
			fmt.Fprintln(os.Stderr, "no such function")
			os.Exit(2)
		}
		fn.WriteTo(os.Stdout)
	default:
		os.Exit(cmdMain(os.Args[1:]))
	}
}
