package main

import (
	"fmt"
	"os"

	"golang.org/x/tools/go/ssa"
)

func main() {
	if len(os.Args) < 2 {
		fmt.Fprintln(os.Stderr, "usage: tvc dump <pkg> <func> | check ...")
		os.Exit(2)
	}
	switch os.Args[1] {
	case "dump":
		p, err := loadProgram([]string{os.Args[2]})
		if err != nil {
			fmt.Fprintln(os.Stderr, err)
			os.Exit(2)
		}
		fn := p.lookupFunc(p.Targets[0], os.Args[3])
		if fn == nil {
			fmt.Fprintln(os.Stderr, "no such function")
			os.Exit(2)
		}
		fn.WriteTo(os.Stdout)
	case "ws":
		// debugging aid: tvc ws <pkg> <func> — syntactic write set and which heaps are only written through local objects
		p, err := loadProgram([]string{os.Args[2]})
		if err != nil {
			fmt.Fprintln(os.Stderr, err)
			os.Exit(2)
		}
		fn := p.lookupFunc(p.Targets[0], os.Args[3])
		if fn == nil {
			fmt.Fprintln(os.Stderr, "no such function")
			os.Exit(2)
		}
		specs := newSpecDB()
		for path := range p.All {
			if len(path) >= len(repoModule) && path[:len(repoModule)] == repoModule {
				specs.loadSpecsForPackage(p.RepoDir, path)
			}
		}
		eng := newEngine(p, specs)
		x := &FnExec{eng: eng, q: newQ(ModeInt), top: fn, ordinals: map[string]int{}, trusted: map[string]bool{}}
		ws := map[string]bool{}
		x.writeSetFn(fn, ws, map[*ssa.Function]bool{})
		for h := range ws {
			fmt.Printf("%-60s localOnly=%v\n", h, x.fnWritesOnlyLocal(fn, h, map[*ssa.Function]bool{}))
		}
	default:
		os.Exit(cmdMain(os.Args[1:]))
	}
}
