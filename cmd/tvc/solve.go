package main

import (
	"bytes"
	"context"
	"fmt"
	"os"
	"os/exec"
	"path/filepath"
	"strings"
	"sync"
	"time"
)

type solverCfg struct {
	name string
	args func(file string, timeoutS int) []string
	bin  string
}

var solvers = []solverCfg{
	{name: "z3-5.1.0", bin: "z3-new", args: func(f string, t int) []string { return []string{fmt.Sprintf("-T:%d", t), f} }},
	{name: "cvc5-1.0", bin: "cvc5", args: func(f string, t int) []string {
		return []string{fmt.Sprintf("--tlimit=%d", t*1000), "--produce-models", f}
	}},
	{name: "z3-4.8.12", bin: "z3", args: func(f string, t int) []string { return []string{fmt.Sprintf("-T:%d", t), f} }},
}

type solveOpts struct {
	timeoutS  int
	retryS    int
	both      bool // thorough: require z3-new and cvc5 to agree
	scratch   string
	workers   int
	keepFiles bool
}

func scratchDir() string {
	base := os.Getenv("TVC_SCRATCH")
	if base == "" {
		base = "/var/tmp"
	}
	d, err := os.MkdirTemp(base, "tvc-")
	if err != nil {
		d, _ = os.MkdirTemp("", "tvc-")
	}
	return d
}

func runSolver(s solverCfg, file string, timeoutS int) (result, output string, ms int64) {
	ctx, cancel := context.WithTimeout(context.Background(), time.Duration(timeoutS+2)*time.Second)
	defer cancel()
	start := time.Now()
	cmd := exec.CommandContext(ctx, s.bin, s.args(file, timeoutS)...)
	var out bytes.Buffer
	cmd.Stdout = &out
	cmd.Stderr = &out
	_ = cmd.Run()
	ms = time.Since(start).Milliseconds()
	output = out.String()
	first := ""
	for _, l := range strings.Split(output, "\n") {
		l = strings.TrimSpace(l)
		if l == "sat" || l == "unsat" || l == "unknown" || l == "timeout" {
			first = l
			break
		}
	}
	switch first {
	case "unsat", "sat", "unknown":
		return first, output, ms
	case "timeout":
		return "timeout", output, ms
	}
	if ctx.Err() != nil {
		return "timeout", output, ms
	}
	if strings.Contains(output, "timeout") || strings.Contains(output, "interrupted") {
		return "timeout", output, ms
	}
	return "error", output, ms
}

// discharge runs one obligation: first z3-new; if not decided, cvc5 and old z3 in parallel; optional retry with a longer timeout.
func discharge(o *Obligation, dir string, idx int, opts solveOpts) {
	if o.Result != "" { // static obligations
		return
	}
	goal := o.Goal
	neg := and(o.Reach, not(goal))
	var vals []string
	if !o.Vacuity {
		vals = o.Values
	}
	script := o.Q.query(o.Prefix, nil, neg, vals)
	file := filepath.Join(dir, fmt.Sprintf("o%05d.smt2", idx))
	if err := os.WriteFile(file, []byte(script), 0o644); err != nil {
		o.Result, o.Output = "error", err.Error()
		return
	}
	if !opts.keepFiles {
		defer os.Remove(file)
	}
	try := func(timeoutS int) bool {
		// quick attempt with the usually fastest solver, then race all three for the full budget
		quick := 2
		if timeoutS < quick {
			quick = timeoutS
		}
		r, out, ms := runSolver(solvers[0], file, quick)
		o.Ms += ms
		if r == "unsat" || r == "sat" {
			o.Result, o.Solver, o.Output = r, solvers[0].name, out
			if opts.both && r == "unsat" {
				r2, _, ms2 := runSolver(solvers[1], file, timeoutS)
				o.Ms += ms2
				if r2 == "sat" {
					o.Result, o.Output = "error", "solver disagreement: z3 unsat, cvc5 sat"
				} else if r2 == "unsat" {
					o.Solver += "+" + solvers[1].name
				}
			}
			return true
		}
		o.Output = out
		// race the other two
		type res struct {
			r, out, name string
			ms     int64
		}
		ch := make(chan res, 2)
		ch = make(chan res, 3)
		for _, s := range solvers {
			go func(s solverCfg) {
				r, out, ms := runSolver(s, file, timeoutS)
				ch <- res{r, out, s.name, ms}
			}(s)
		}
		var got []res
		for i := 0; i < 3; i++ {
			g := <-ch
			got = append(got, g)
			if g.r == "unsat" || g.r == "sat" {
				break // first decisive answer wins (the others are left to their own time limit)
			}
		}
		var maxMs int64
		for _, g := range got {
			if g.ms > maxMs {
				maxMs = g.ms
			}
		}
		o.Ms += maxMs
		for _, g := range got {
			if g.r == "unsat" {
				o.Result, o.Solver, o.Output = "unsat", g.name, g.out
				return true
			}
		}
		for _, g := range got {
			if g.r == "sat" {
				o.Result, o.Solver, o.Output = "sat", g.name, g.out
				return true
			}
		}
		if r == "timeout" {
			o.Result = "timeout"
		} else if len(got) == 3 && got[0].r == "error" && got[1].r == "error" && got[2].r == "error" {
			o.Result = "error"
			o.Output = got[0].out + "\n" + got[1].out + "\n" + got[2].out
		} else {
			o.Result = "unknown"
		}
		return false
	}
	first := opts.timeoutS
	if o.Vacuity && first > 5 {
		first = 5 // covers are sanity checks: confirmed quickly or reported as unconfirmed
	}
	if try(first) {
		return
	}
	if o.Vacuity {
		return // a cover that is not confirmed within the first budget is reported as unconfirmed, not retried
	}
	if opts.retryS > 0 && o.Result != "error" {
		r := opts.retryS
		if o.Budget > r {
			r = o.Budget
		}
		try(r)
	}
}

func dischargeAll(obls []*Obligation, opts solveOpts) (solverMs int64) {
	dir := scratchDir()
	defer os.RemoveAll(dir)
	if opts.workers <= 0 {
		opts.workers = 12
	}
	var wg sync.WaitGroup
	ch := make(chan int)
	for w := 0; w < opts.workers; w++ {
		wg.Add(1)
		go func() {
			defer wg.Done()
			for i := range ch {
				discharge(obls[i], dir, i, opts)
			}
		}()
	}
	for i := range obls {
		ch <- i
	}
	close(ch)
	wg.Wait()
	for _, o := range obls {
		solverMs += o.Ms
	}
	return
}
